"""C18 - an open trajectory file behaves as a cursor over its frames (model-based, op sequences as data)."""
import itertools
import os
import warnings

import numpy as np
from hypothesis import strategies as st

from vlib import files
from props import c02

ID = "C18"
FMTS = ["h5", "xtc", "trr", "dcd", "nc", "mdcrd", "xyz", "xyz.gz", "lammpstrj", "dtr", "arc"]
ARC = "seeds/nitrogen.arc"
RULE = ("case = (seekable format, file of 1-12 frames, optional fixed atom_indices, sequence of <=25 operations over two handles "
        "from {read(n), read(), seek(k) in range, seek(d,1) in range, seek(d,2) in range (generated part only; NotImplementedError = "
        "refusal that leaves the position alone), tell(), len()}); oracle = integer cursor per handle + the "
        "frames read by a fresh handle in one go (all returned arrays compared bit-for-bit, tell/len compared with the model; after "
        "the last operation position and next frame are checked again); non-trivial = the history contains a seek or a read-to-end "
        "followed by a later read/tell/relative seek; distinct = different canonical JSON")
ENUM_SCOPE = ("all single-handle operation sequences of length <= L over a 17-operation alphabet on a 5-frame file for each of the "
              "10 seekable formats (quick L=3, thorough L=4); sequences entering the region of an open finding are left out")
RULE += ("; widened: files of 513 / 600 frames, TRR files with velocity / force blocks, DCD files with fixed atoms (half, all but two, one), atom_indices in the caller's order (not ascending) - and the fresh-handle read with atom_indices must equal those columns of the plain read")
QUICK = {"examples": 150, "shards": 12, "budget_s": 100}
THOROUGH = {"examples": 3000, "shards": 16, "budget_s": 1500}
ASSUMPTIONS = ["reference frames come from one read() on a fresh handle of the same file (C01/C02 cover its correctness)",
               "in-range operations only, as the property states (seek targets 0 <= k < len)"]

ALPHABET = [["read", 1], ["read", 2], ["read", 3], ["read", 7], ["readall"], ["seek", 0], ["seek", 1], ["seek", 2], ["seek", 3],
            ["seek", 4], ["seekrel", -2], ["seekrel", -1], ["seekrel", 1], ["seekrel", 2], ["tell"], ["len"], ["read", 5]]

WHERE = {
    # TRR: after a read that hits end-of-file the frame counter overshoots (tell = N+1/N+2), a second read() raises and
    # relative seeks are mis-placed (trr.pyx: Cython)
    "C18-trr-eof-counter": lambda c, k: c["fmt"] == "trr" and _hits_eof(c),
}


def _hits_eof(case):
    """does any read in the history reach the end of the file? (model run)"""
    n = _nframes(case)
    pos = [0, 0]
    for op in case["ops"]:
        h = op[0]
        if op[1] == "read":
            if pos[h] + op[2] > n:   # asking for more frames than are left touches EOF in the XDR reader
                return True
            pos[h] += op[2]
        elif op[1] == "readall":
            return True
        elif op[1] == "seek":
            pos[h] = op[2] % n
        elif op[1] in ("seekrel", "seekend"):
            pos[h] = op[2] % n
    return False


def _ck(fmt, want):
    return None if fmt == "arc" else c02._cellkind(fmt, want)


def _nframes(case):
    return 38 if case["fmt"] == "arc" else case["nf"]


def _open_keys():
    from vlib.runner import load_findings
    return [f["key"] for f in load_findings(ID) if f.get("status") == "open"]


@st.composite
def strategy(draw, tier="quick"):
    fmt = draw(st.sampled_from(FMTS))
    nf = draw(st.integers(1, 12))
    na = draw(st.sampled_from([3, 8, 9, 10, 12]))
    case = {"fmt": fmt, "nf": nf, "na": na, "cell": _ck(fmt, draw(st.sampled_from([None, "ortho", "tric"]))),
            "seed": draw(st.integers(0, 2))}
    if fmt == "dcd" and case["cell"] != "tric" and draw(st.integers(0, 2)) == 0:
        case["dcd_fixed"] = draw(st.sampled_from(["half", "most", "one"]))        # fixed atoms as CHARMM / NAMD store them (later frames hold the free atoms only)
    if fmt == "dcd" and draw(st.integers(0, 2)) == 0:
        case["dcd_nset"] = draw(st.sampled_from(["zero", "stale"]))     # header frame count never updated (killed writer)
    if fmt == "lammpstrj" and draw(st.booleans()):
        case["rows"] = draw(st.sampled_from(["shuffled", "molcol"]))    # a dump with its records unsorted / with a molecule-id column
    if fmt == "trr" and draw(st.booleans()):
        case["trr_vf"] = draw(st.sampled_from(["v", "f", "vf"]))       # velocity / force blocks as GROMACS writes them
    if draw(st.integers(0, 2)) == 0:
        case["atoms"] = sorted(set(draw(st.lists(st.integers(0, na - 1), min_size=1, max_size=4))))
        if len(case["atoms"]) > 1 and draw(st.booleans()):
            case["atoms"] = list(draw(st.permutations(case["atoms"])))      # atom_indices in the caller's order, not ascending
    # (dtr: a new frame file every 256 frames; h5 / nc: storage chunks of ~136 frames at 40 atoms)
    long_ = fmt != "arc" and draw(st.integers(0, 3 if fmt in ("h5", "nc") else 5 if fmt == "dtr" else 14)) == 0
    if long_:
        # a long file: more frames than an internal block / index page is likely to hold; positions around 256 and 512
        # (3 or 40 atoms: HDF5 / NetCDF lay the frames out in storage chunks of ~64 kB, i.e. 1820 or 136 frames)
        case.update(nf=draw(st.sampled_from([513, 600])), na=40 if fmt in ("h5", "nc") else draw(st.sampled_from([3, 40])), seed=0, long=True)
        if "atoms" in case or (fmt in ("h5", "nc") and draw(st.booleans())):
            case["atoms"] = draw(st.sampled_from([[0, 2], [0, 2], [2, 0]]))
    n = _nframes(case)
    nh = draw(st.sampled_from([1, 1, 2]))
    posn = st.sampled_from([0, 1, 255, 256, 257, 511, 512, n - 1]) if long_ else st.integers(0, n - 1)
    rsize = st.sampled_from([1, 2, 3, 100, 256, 300]) if long_ else st.integers(1, 4)
    op = st.one_of(
        st.tuples(st.just("read"), rsize),
        st.tuples(st.just("read"), rsize),
        st.tuples(st.just("readall")),
        st.tuples(st.just("seek"), posn),
        st.tuples(st.just("seekrel"), posn),   # target position; the delta is derived from the model
        st.tuples(st.just("seekend"), posn),   # seek(target - len, 2): documented for some formats, refused by others
        st.tuples(st.just("tell")),
        st.tuples(st.just("len")))
    ops = draw(st.lists(st.tuples(st.integers(0, nh - 1), op), min_size=1, max_size=10 if long_ else 25))
    case["ops"] = [[h] + list(o) for h, o in ops]
    if fmt == "trr":
        # TRR refuses seeks from the end (position unchanged); keeping the region of its open finding computable from the
        # history alone is simpler without them
        case["ops"] = [[o[0], "tell"] if o[1] == "seekend" else o for o in case["ops"]]
    keys = _open_keys()
    if "C18-trr-eof-counter" in keys and fmt == "trr" and _hits_eof(case):
        # exclude by construction: truncate the history just before the first read that touches EOF
        case["ops"] = _truncate_before_eof(case)
        case["excluded"] = ["excluded:C18-trr-eof-counter"]
    return case


def _truncate_before_eof(case):
    n = _nframes(case)
    pos = [0, 0]
    out = []
    for op in case["ops"]:
        h = op[0]
        if op[1] == "read":
            if pos[h] + op[2] > n:
                continue
            pos[h] += op[2]
        elif op[1] == "readall":
            continue
        elif op[1] in ("seek", "seekrel", "seekend"):
            pos[h] = op[2] % n
        out.append(op)
    return out or [[0, "tell"]]


def enumerate_cases(tier):
    L = 3 if tier == "quick" else 4
    keys = _open_keys()
    for fmt in FMTS:
        base = {"fmt": fmt, "nf": 5, "na": 10, "cell": _ck(fmt, "ortho"), "seed": 0}
        n = _nframes(base)
        for length in range(1, L + 1):
            for seq in itertools.product(ALPHABET, repeat=length):
                ops = []
                pos = 0
                ok = True
                for o in seq:
                    if o[0] == "seekrel":
                        tgt = pos + o[1]
                        if not (0 <= tgt < n):
                            ok = False
                            break
                        ops.append([0, "seekrel", tgt])
                        pos = tgt
                    else:
                        ops.append([0] + list(o))
                        if o[0] == "read":
                            pos = min(n, pos + o[1])
                        elif o[0] == "readall":
                            pos = n
                        elif o[0] == "seek":
                            pos = o[1]
                if not ok:
                    continue
                c = dict(base, ops=ops)
                if any(WHERE[k](c, None) for k in keys if k in WHERE):
                    continue
                yield c
                if length <= 2 and fmt != "arc":
                    yield dict(c, atoms=[7, 2, 5])       # the same histories with atom_indices in a non-ascending order


def _fields(r):
    """normalise a read() result to a list of arrays / None"""
    if isinstance(r, np.ndarray):
        return [r]
    if isinstance(r, (tuple, list)):
        return list(r)
    return [r]


def _open(fn, case):
    import mdtraj as md
    if case["fmt"] in ("mdcrd", "crd"):
        return md.open(fn, n_atoms=case["na"])
    return md.open(fn)


def run_case(case):
    fmt = case["fmt"]
    viol, labels = [], ["fmt:" + fmt] + list(case.get("excluded", [])) + (["long-file"] if case.get("long") else [])
    if fmt == "arc":
        fn = os.path.join(files.VERIF, ARC)
        na_file = None
    else:
        c02._trim_cache()
        fn, tr, _full = c02._file(fmt, case["nf"], case["na"], case["cell"], case["seed"], rows=case.get("rows"), trr_vf=case.get("trr_vf"),
                                  dcd_fixed=case.get("dcd_fixed", False), dcd_nset=case.get("dcd_nset"))
    atoms = case.get("atoms")
    with warnings.catch_warnings():
        warnings.simplefilter("ignore")
        with _open(fn, case) as fh:
            kw = {}
            ref = _fields(fh.read())
        N = len(ref[0])
        if fmt != "arc" and N != case["nf"]:
            return {"viol": [("%s/reference-read-length" % fmt, "read() on a fresh handle gave %d frames of %d" % (N, case["nf"]))],
                    "labels": labels, "nontrivial": False}
        if atoms is not None:
            if fmt == "arc":
                atoms = [a % ref[0].shape[1] for a in atoms]
                atoms = sorted(set(atoms))
            kw = {"atom_indices": np.array(atoms)}
            full_xyz = np.asarray(ref[0])
            with _open(fn, case) as fh:
                ref = _fields(fh.read(**kw))
            labels.append("atom_indices")
            if list(atoms) != sorted(atoms):
                labels.append("atom_indices-not-ascending")
            # the frames read with atom_indices are the selected columns, in the caller's order, of the frames read without
            sub = np.asarray(ref[0])
            if sub.shape != full_xyz[:, atoms].shape or not np.array_equal(sub, full_xyz[:, atoms]):
                return {"viol": [("%s/atom_indices-columns" % fmt, "read(atom_indices=%s) on a fresh handle is not those columns of read(): shape %s vs %s" % (
                    list(atoms), sub.shape, full_xyz[:, atoms].shape))], "labels": labels, "nontrivial": False}
        handles = [_open(fn, case), _open(fn, case)]
        pos = [0, 0]
        prev = ["open", "open"]
        seen_mut = False
        nontrivial = False
        try:
            def check_read(h, got, lo, hi, tag):
                got = _fields(got)
                if hi == lo:
                    # nothing left to read: formats represent "no frames" differently ([] / empty arrays / None fields);
                    # the only requirement is that no frame is returned
                    g0 = got[0] if len(got) else []
                    if g0 is not None and len(g0) != 0:
                        viol.append(("%s/%s/count" % (fmt, tag), "%d frames returned at end of file" % len(g0)))
                    return
                if len(got) != len(ref):
                    viol.append(("%s/%s/fields" % (fmt, tag), "tuple of %d, reference %d" % (len(got), len(ref))))
                    return
                for i, (g, r) in enumerate(zip(got, ref)):
                    if isinstance(r, np.ndarray) and r.ndim >= 1 and len(r) == N:
                        if g is None or len(g) != hi - lo:
                            viol.append(("%s/%s/count" % (fmt, tag), "field %d: %s frames, expected %d (pos %d of %d)" % (
                                i, None if g is None else len(g), hi - lo, lo, N)))
                            return
                        if not np.array_equal(np.asarray(g), r[lo:hi]):
                            viol.append(("%s/%s/content" % (fmt, tag), "field %d differs from frames [%d,%d)" % (i, lo, hi)))
                            return

            for op in case["ops"]:
                h, name = op[0], op[1]
                fh = handles[h]
                if name == "read":
                    n = op[2]
                    lo, hi = pos[h], min(N, pos[h] + n)
                    got = fh.read(n, **kw)
                    check_read(h, got, lo, hi, "read-after-" + prev[h])
                    pos[h] = hi
                    prev[h] = "read" if lo + n < N else ("read-to-last" if lo + n == N else "read-past-end")
                    nontrivial = nontrivial or seen_mut
                elif name == "readall":
                    lo = pos[h]
                    got = fh.read(**kw)
                    check_read(h, got, lo, N, "readall-after-" + prev[h])
                    pos[h] = N
                    nontrivial = nontrivial or seen_mut
                    prev[h] = "readall"
                    seen_mut = True
                elif name == "seek":
                    k = op[2] % N
                    fh.seek(k)
                    pos[h] = k
                    prev[h] = "seek"
                    seen_mut = True
                elif name == "seekrel":
                    tgt = op[2] % N
                    nontrivial = nontrivial or seen_mut
                    fh.seek(tgt - pos[h], 1)
                    pos[h] = tgt
                    prev[h] = "seekrel"
                    seen_mut = True
                elif name == "seekend":
                    tgt = op[2] % N
                    try:
                        fh.seek(tgt - N, 2)
                    except NotImplementedError:
                        labels.append("seek-from-end-refused")     # a clean refusal: the position must not have moved
                        prev[h] = "refused-seekend"
                        continue
                    pos[h] = tgt
                    prev[h] = "seekend"
                    seen_mut = True
                elif name == "tell":
                    t = fh.tell()
                    nontrivial = nontrivial or seen_mut
                    if int(t) != pos[h]:
                        viol.append(("%s/tell-after-%s" % (fmt, prev[h]), "tell()=%s, model %d of %d" % (t, pos[h], N)))
                elif name == "len":
                    try:
                        ln = len(fh)
                    except TypeError:
                        labels.append("len-unsupported")
                        continue
                    if ln != N:
                        viol.append(("%s/len-after-%s" % (fmt, prev[h]), "len()=%s, %d frames" % (ln, N)))
                if viol:
                    break
            if not viol:
                # closing observation on every handle: position and (if any frame is left) the next frame
                for h, fh in enumerate(handles):
                    t = fh.tell()
                    if int(t) != pos[h]:
                        viol.append(("%s/tell-after-%s" % (fmt, prev[h]), "final tell()=%s, model %d of %d" % (t, pos[h], N)))
                        break
                    if pos[h] < N:
                        got = fh.read(1, **kw)
                        check_read(h, got, pos[h], pos[h] + 1, "read-after-" + prev[h])
        except NotImplementedError:
            labels.append("unsupported")
        finally:
            for fh in handles:
                try:
                    fh.close()
                except Exception:
                    pass
    if len({o[0] for o in case["ops"]}) > 1:
        labels.append("two-handles")
    return {"viol": viol, "labels": labels, "nontrivial": bool(nontrivial)}


TECHNIQUE = "model-based testing: generated operation histories (Hypothesis) + exhaustive short histories, against an integer-cursor model"
LEVEL_TEXT = ("Operation histories over one or two handles are interpreted against the real file object and an integer cursor model; "
              "every read is compared bit-for-bit with the frames a fresh handle returns, tell/len with the model. All histories up to "
              "length 3 (thorough: 4) over a 17-operation alphabet are enumerated per format, longer ones are generated and shrunk.")
LEVEL_NOTE = ("Trusts a single read() on a fresh handle as the reference content. The region of the open TRR end-of-file finding is "
              "excluded by construction; arc uses the stored tests/data/nitrogen.arc (mdtraj cannot write arc).")
