"""C20 - existing files are never modified unless overwriting was requested."""
import itertools
import os
import pathlib
import shutil
import warnings

import numpy as np
from hypothesis import strategies as st

from vlib import files

ID = "C20"
EXTS = ["xtc", "trr", "pdb", "pdb.gz", "dcd", "h5", "nc", "netcdf", "ncdf", "ncrst", "crd", "mdcrd", "lammpstrj", "xyz", "xyz.gz",
        "gro", "rst7", "dtr"]
OPENABLE = ["xtc", "trr", "pdb", "dcd", "h5", "nc", "mdcrd", "lammpstrj", "xyz", "xyz.gz", "gro", "rst7", "ncrst", "dtr", "pdb.gz"]
PRE = ["same", "longer", "junk", "empty", "other-kind", "partial-numbered"]
# the format-specific writers, reached without the extension dispatch of Trajectory.save / md.open
METHOD = {"xtc": "save_xtc", "trr": "save_trr", "pdb": "save_pdb", "pdb.gz": "save_pdb", "dcd": "save_dcd", "h5": "save_hdf5",
          "nc": "save_netcdf", "netcdf": "save_netcdf", "ncdf": "save_netcdf", "ncrst": "save_netcdfrst", "crd": "save_mdcrd",
          "mdcrd": "save_mdcrd", "lammpstrj": "save_lammpstrj", "xyz": "save_xyz", "xyz.gz": "save_xyz", "gro": "save_gro",
          "rst7": "save_amberrst7", "dtr": "save_dtr"}
CLASS = {"xtc": "XTCTrajectoryFile", "trr": "TRRTrajectoryFile", "pdb": "PDBTrajectoryFile", "dcd": "DCDTrajectoryFile",
         "h5": "HDF5TrajectoryFile", "nc": "NetCDFTrajectoryFile", "mdcrd": "MDCRDTrajectoryFile",
         "lammpstrj": "LAMMPSTrajectoryFile", "xyz": "XYZTrajectoryFile", "gro": "GroTrajectoryFile", "rst7": "AmberRestartFile",
         "ncrst": "AmberNetCDFRestartFile", "dtr": "DTRTrajectoryFile"}
NAMES = ["std", "upper", "alt", "noext"]     # file-name shapes for the writers that do not dispatch on the extension
ALT = {"h5": "hdf5", "nc": "cdf", "pdb": "ent", "xtc": "part0001", "dcd": "coor", "rst7": "inpcrd", "ncrst": "rst",
       "mdcrd": "traj", "crd": "traj", "gro": "g96x", "dtr": "stk0"}
RULE = ("case = (extension, pre-existing content at the path {valid file of the format, longer valid file, unrelated bytes, empty "
        "file, directory-vs-file mismatch, a subset of the numbered file.N restart outputs}, 1 or 3 frames, with or without a unit cell, force_overwrite, entry "
        "point {Trajectory.save, md.open(mode='w'), the format's own Trajectory.save_<fmt> method, the format's file class "
        "opened with mode='w', read entry points}, file-name shape for the last two {usual extension, upper-cased, another "
        "suffix such as .hdf5/.inpcrd/.dat, no suffix}, path shape {absolute str, relative str, pathlib.Path}); "
        "oracle = SHA-256 / size / directory-tree digests before and after; overwrite result must load equal to a file written "
        "to a fresh path and have the same size; non-trivial = pre-existing valid longer file or partial numbered set or "
        "force_overwrite=False on a non-empty existing target")
ENUM_SCOPE = ("the full product extension x pre-existing content x {1,3} frames x force_overwrite x {save, open-for-write} plus "
              "extension x {same, junk, longer} x force_overwrite x {save_<fmt> method, file class} x four file-name shapes, plus the "
              "read-only sweep, both tiers")
QUICK = {"examples": 40, "shards": 12, "budget_s": 100}
THOROUGH = {"examples": 1200, "shards": 16, "budget_s": 1200}
ASSUMPTIONS = ["only the files that existed before the call are required to be unchanged when a save is refused; new sibling files "
               "(e.g. file.1 written before file.2 is refused) are reported in the labels, not as violations",
               "a refusal may be any exception"]
WHERE = {}


def _open_keys():
    from vlib.runner import load_findings
    return [f["key"] for f in load_findings(ID) if f.get("status") == "open"]


def _restart(ext):
    return ext in ("rst7", "ncrst")


def enumerate_cases(tier):
    for ext in EXTS:
        for pre in PRE:
            if pre == "partial-numbered" and not _restart(ext):
                continue
            for nf in (1, 3):
                if pre == "partial-numbered" and nf == 1:
                    continue
                for force in (False, True):
                    yield {"ext": ext, "pre": pre, "nf": nf, "force": force, "via": "save", "path": "abs", "seed": 0}
                    if ext in OPENABLE and pre != "partial-numbered":
                        yield {"ext": ext, "pre": pre, "nf": nf, "force": force, "via": "open", "path": "abs", "seed": 0}
        yield {"ext": ext, "pre": "same", "nf": 3, "force": False, "via": "read", "path": "abs", "seed": 0}
        for foreign in ("stale-count", "truncated"):
            for sd in (0, 1):
                yield {"ext": ext, "pre": "same", "nf": 3, "force": False, "via": "read", "path": "abs", "seed": sd, "foreign": foreign}
        for via in ("save", "open", "method", "class"):
            if (via == "open" and ext not in OPENABLE) or (via == "class" and ext not in CLASS):
                continue
            for nf in (1, 3):
                for pth in ("rel", "pathlib"):
                    # the path given relative to the working directory, or as a pathlib.Path
                    yield {"ext": ext, "pre": "same", "nf": nf, "force": False, "via": via, "path": pth, "seed": 0}
        for via in ("save", "method"):
            for nf in (1, 3):
                for force in (False, True):
                    # the same for a trajectory that carries no unit cell
                    yield {"ext": ext, "pre": "longer", "nf": nf, "force": force, "via": via, "path": "abs", "seed": 0, "nocell": True}
        for via in ("method", "class"):
            if via == "class" and ext not in CLASS:
                continue
            for nm in NAMES:
                if ext.endswith(".gz") and nm != "std":
                    continue
                for pre in ("same", "junk", "longer"):
                    for force in (False, True):
                        yield {"ext": ext, "pre": pre, "nf": 3, "force": force, "via": via, "name": nm, "path": "abs", "seed": 0}


@st.composite
def strategy(draw, tier="quick"):
    ext = draw(st.sampled_from(EXTS))
    pre = draw(st.sampled_from(PRE if _restart(ext) else PRE[:-1]))
    nf = draw(st.sampled_from([1, 1, 2, 3, 5, 12]))
    if pre == "partial-numbered" and nf == 1:
        nf = 2
    via = draw(st.sampled_from(["save", "save", "open", "read", "method", "class"]))
    if via == "open" and (ext not in OPENABLE or pre == "partial-numbered"):
        via = "save"
    if via == "class" and (ext not in CLASS or pre == "partial-numbered"):
        via = "method"
    foreign = None
    if via == "read":
        pre = "same"
        foreign = draw(st.sampled_from([None, "stale-count", "truncated"]))
    nm = "std"
    if via in ("method", "class") and not ext.endswith(".gz"):
        nm = draw(st.sampled_from(NAMES))
    return {"ext": ext, "name": nm, "foreign": foreign, "nocell": draw(st.integers(0, 2)) == 0, "pre": pre, "nf": nf, "force": draw(st.booleans()), "via": via,
            "path": draw(st.sampled_from(["abs", "rel", "pathlib"])), "seed": draw(st.integers(0, 5)),
            "na": draw(st.sampled_from([3, 9, 10, 12])), "old_nf": draw(st.integers(1, 15))}


def _traj(nf, na, seed, ext, nocell=False):
    cell = "ortho"
    if not files.FORMATS.get(ext, {"cell": True})["cell"]:
        cell = None
    if nocell and not files.FORMATS.get(ext, {}).get("need_cell"):
        cell = None
    return files.file_traj(nf, na, cell, seed, time="offset")


def _numbered(path, n):
    fmt = "%s.%%0%dd" % (path, len(str(n)))
    return [fmt % (i + 1) for i in range(n)]


def _targets(path, ext, nf):
    """the paths a save of nf frames writes"""
    if _restart(ext) and nf > 1:
        return _numbered(path, nf)
    return [path]


def _snapshot(d):
    out = {}
    for name in sorted(os.listdir(d)):
        out[name] = files.tree_digest(os.path.join(d, name))
    return out


def _load_any(path, ext, top):
    import mdtraj as md
    if _restart(ext) and not path.endswith("." + ext):
        from mdtraj.formats import AmberNetCDFRestartFile, AmberRestartFile
        cls = AmberRestartFile if ext == "rst7" else AmberNetCDFRestartFile
        with cls(path) as fh:
            return fh.read_as_traj(top)
    if ext in ("pdb", "pdb.gz", "h5", "gro"):
        return md.load(path)
    return md.load(path, top=top)


def _file_name(ext, nm):
    if nm == "upper":
        return "target." + ext.upper()
    if nm == "alt":
        return "target." + ALT.get(ext, "dat")
    if nm == "noext":
        return "target_" + ext.replace(".", "_")
    return "target." + ext


def _write_via_method(path, ext, tr, force):
    getattr(tr, METHOD[ext])(path, force_overwrite=force)


def _load_named(path, ext, top):
    """load a file whose name need not carry the format's extension: a copy under the usual name is what gets loaded"""
    if _restart(ext) or str(path).endswith("." + ext):
        return _load_any(path, ext, top)
    with files.scratch() as d2:
        cp = os.path.join(d2, "copy." + ext)
        if os.path.isdir(path):
            shutil.copytree(path, cp)
        else:
            shutil.copyfile(path, cp)
        return _load_any(cp, ext, top)


def _write_via_open(path, ext, tr, force, cls=None):
    import mdtraj as md
    from props import c19
    if cls is not None:
        import mdtraj.formats as F
        fh = getattr(F, CLASS[ext])(path, mode="w", force_overwrite=force)
    else:
        fh = md.open(path, "w", force_overwrite=force)
    try:
        if ext in ("rst7", "ncrst"):
            fh.write(tr.xyz[0] * 10, time=float(tr.time[0]), cell_lengths=None if tr.unitcell_lengths is None else tr.unitcell_lengths[0] * 10,
                     cell_angles=None if tr.unitcell_angles is None else tr.unitcell_angles[0])
        else:
            base = {"pdb.gz": "pdb", "xyz.gz": "xyz", "netcdf": "nc", "ncdf": "nc", "crd": "mdcrd"}.get(ext, ext)
            c19._write(base, fh, tr, 0, len(tr), tr.unitcell_lengths is not None, True)
    finally:
        fh.close()


def run_case(case):
    import mdtraj as md
    ext, pre, nf, force, via = case["ext"], case["pre"], case["nf"], case["force"], case["via"]
    na = case.get("na", 10)
    viol, labels = [], ["ext:" + ext, "pre:" + pre, "via:" + via, "force" if force else "noforce"]
    if via in ("open", "class") and _restart(ext):
        nf = 1   # a restart file object holds one frame and writes to the path itself
    if via in ("open", "class") and case["path"] == "pathlib":
        # path-like support of the file classes is not this property's subject: where a class does not take a pathlib.Path for a
        # fresh file at all, the case falls back to the string form
        with files.scratch() as d0:
            try:
                _write_via_open(pathlib.Path(os.path.join(d0, _file_name(ext, case.get("name", "std")))), ext,
                                _traj(1 if _restart(ext) else 2, na, 0, ext), True, cls=(via == "class") or None)
                labels.append("pathlib-through-" + via)
            except Exception:
                labels.append("pathlib-unsupported-by-file-class")
                case = dict(case, path="abs")
    nocell = bool(case.get("nocell"))
    if nocell:
        labels.append("trajectory-without-cell")
    new = _traj(nf, na, case["seed"] + 100, ext, nocell)
    old_nf = {"same": nf, "longer": nf + case.get("old_nf", 6)}.get(pre, nf)
    old = _traj(old_nf, na, case["seed"], ext, nocell)
    cwd = os.getcwd()
    with warnings.catch_warnings(), files.scratch() as d:
        warnings.simplefilter("ignore")
        try:
            os.chdir(d)
            name = _file_name(ext, case.get("name", "std"))
            if name != "target." + ext:
                labels.append("name:" + case["name"])
            full = os.path.join(d, name)

            def put(tr, where, frc=True):
                if via == "method" or (via == "class" and name != "target." + ext):
                    _write_via_method(where, ext, tr, frc)
                else:
                    tr.save(where, force_overwrite=frc)
            # ---- pre-existing content
            if pre in ("same", "longer"):
                put(old, full)
                if _restart(ext) and old_nf > 1 and nf == 1:
                    # a single-frame save targets `full` itself: make that exist too
                    put(old[0], full)
            elif pre == "junk":
                for t in _targets(full, ext, nf):
                    if ext == "dtr":
                        os.makedirs(t)
                        open(os.path.join(t, "unrelated.bin"), "wb").write(b"unrelated bytes " * 40)
                    else:
                        open(t, "wb").write(b"unrelated bytes, not a trajectory " * 40)
            elif pre == "empty":
                for t in _targets(full, ext, nf):
                    if ext == "dtr":
                        os.makedirs(t)
                    else:
                        open(t, "wb").close()
            elif pre == "other-kind":
                # a directory where a file is expected, a file where a directory (dtr) is expected
                for t in _targets(full, ext, nf):
                    if ext == "dtr":
                        open(t, "wb").write(b"plain file named like a dtr directory")
                    else:
                        os.makedirs(t)
                        open(os.path.join(t, "keep.txt"), "w").write("keep me")
            elif pre == "partial-numbered":
                targets = _targets(full, ext, nf)
                put(_traj(nf, na, case["seed"], ext, nocell), full)
                for t in targets[:1] + targets[2:]:
                    os.remove(t)   # only file.2 of file.1..file.N exists
            if via == "read" and case.get("foreign") and os.path.isfile(full):
                # a file as another program (or an interrupted run) left it: header frame count out of date, or cut short
                labels.append("foreign:" + case["foreign"])
                if case["foreign"] == "stale-count" and ext == "dcd":
                    with open(full, "r+b") as fh_:
                        fh_.seek(8)
                        fh_.write(np.array([old_nf + 3 if case["seed"] % 2 else max(old_nf - 1, 1)], dtype="<i4").tobytes())
                elif case["foreign"] == "truncated":
                    with open(full, "r+b") as fh_:
                        fh_.truncate(max(os.path.getsize(full) - 7, 1))
            before = _snapshot(d)
            path = {"abs": full, "rel": name, "pathlib": pathlib.Path(full)}[case["path"]]
            existing_targets = [t for t in _targets(full, ext, nf) if os.path.lexists(t)]

            if via == "read":
                kw = {} if ext in ("pdb", "pdb.gz", "h5", "gro") else {"top": old.topology}
                rpaths = _targets(full, ext, old_nf)
                for rp in rpaths[:2]:
                    def attempt(tag, fn):
                        # only the effect on the files matters here; an entry point a format does not offer is labelled
                        try:
                            fn()
                        except Exception as e:  # noqa
                            labels.append("read-entry-raised:%s:%s" % (tag, type(e).__name__))
                    if rp.endswith(ext):
                        attempt("load", lambda: md.load(rp, **kw))
                        attempt("load_frame", lambda: md.load_frame(rp, 0, **kw))
                        attempt("iterload", lambda: list(itertools.islice(md.iterload(rp, chunk=2, **kw), 10)))
                    else:
                        attempt("restart-class", lambda: _load_any(rp, ext, old.topology))
                    if ext in OPENABLE and rp.endswith(ext):
                        okw = {"n_atoms": na} if ext in ("mdcrd", "crd") else {}

                        def fileobj():
                            with md.open(rp, **okw) as fh:
                                fh.read()
                                for name_, arg in (("seek", (0,)), ("tell", ()), ("__len__", ())):
                                    try:
                                        getattr(fh, name_)(*arg)
                                    except Exception as e:  # noqa
                                        labels.append("read-entry-raised:%s:%s" % (name_, type(e).__name__))
                        attempt("open", fileobj)
                    if ext in ("pdb", "pdb.gz", "h5", "gro"):
                        attempt("load_topology", lambda: md.load_topology(rp))
                after = _snapshot(d)
                for k, v in before.items():
                    if after.get(k) != v:
                        viol.append(("%s/read-modified-file" % ext, "%s changed by a read entry point" % k))
                return {"viol": viol, "labels": labels, "nontrivial": True}

            raised = None
            try:
                if via == "save":
                    new.save(path, force_overwrite=force)
                elif via == "method":
                    _write_via_method(path, ext, new, force)
                else:
                    _write_via_open(path, ext, new, force, cls=(via == "class") or None)
            except Exception as e:  # noqa - classified below
                raised = e
            after = _snapshot(d)

            if not force:
                if existing_targets:
                    if raised is None:
                        viol.append(("%s/%s/no-error-on-existing" % (ext, via), "pre=%s: save/open without force_overwrite did not raise" % pre))
                    for k, v in before.items():
                        if after.get(k) != v:
                            viol.append(("%s/%s/existing-modified" % (ext, via), "pre=%s: %s changed although force_overwrite=False" % (pre, k)))
                            break
                    if set(after) - set(before):
                        labels.append("new-siblings-on-refusal")
                nontrivial = pre in ("same", "longer", "junk", "partial-numbered")
            else:
                nontrivial = pre in ("longer", "partial-numbered")
                if raised is not None:
                    if pre == "other-kind":
                        labels.append("refused-kind-mismatch")   # cannot replace a directory by a file: a clean refusal
                        for k, v in before.items():
                            if after.get(k) != v:
                                viol.append(("%s/%s/kind-mismatch-damaged" % (ext, via), "%s changed by a refused overwrite" % k))
                                break
                    else:
                        viol.append(("%s/%s/overwrite-failed" % (ext, via), "pre=%s force_overwrite=True raised %s: %s" % (
                            pre, type(raised).__name__, str(raised)[:200])))
                else:
                    # reference: the same trajectory written to a fresh path
                    refd = os.path.join(d, "fresh")
                    os.makedirs(refd)
                    rfull = os.path.join(refd, name)
                    if via == "save":
                        new.save(rfull, force_overwrite=True)
                    elif via == "method":
                        _write_via_method(rfull, ext, new, True)
                    else:
                        _write_via_open(rfull, ext, new, True, cls=(via == "class") or None)
                    wnf = nf
                    for t, rt in zip(_targets(full, ext, wnf), _targets(rfull, ext, wnf)):
                        if not os.path.lexists(t):
                            viol.append(("%s/%s/overwrite-missing" % (ext, via), "%s not written" % os.path.basename(t)))
                            break
                        try:
                            got = _load_named(t, ext, new.topology)
                            exp = _load_named(rt, ext, new.topology)
                        except Exception as e:
                            viol.append(("%s/%s/overwrite-unloadable" % (ext, via), "pre=%s: %s %s" % (pre, type(e).__name__, str(e)[:200])))
                            break
                        dd = files.traj_diff(got, exp)
                        if dd:
                            viol.append(("%s/%s/overwrite-retains-old" % (ext, via), "pre=%s: overwritten file differs from a fresh one: %s" % (pre, dd)))
                            break
                        if os.path.isfile(t) and os.path.getsize(t) != os.path.getsize(rt) and not ext.endswith(".gz"):
                            viol.append(("%s/%s/overwrite-size" % (ext, via), "pre=%s: %d bytes, a fresh file has %d" % (
                                pre, os.path.getsize(t), os.path.getsize(rt))))
                            break
                        if ext == "dtr" and os.path.isdir(t):
                            extra = set(os.listdir(t)) - set(os.listdir(rt))
                            if extra:
                                viol.append(("%s/%s/overwrite-retains-old" % (ext, via), "old directory entries survive: %s" % sorted(extra)[:4]))
                                break
        finally:
            os.chdir(cwd)
    labels.append("path:" + case["path"])
    return {"viol": viol, "labels": labels, "nontrivial": bool(nontrivial)}


TECHNIQUE = "exhaustive enumeration of the finite configuration product + Hypothesis-generated trajectories/paths; digest-before/after oracle"
LEVEL_TEXT = ("The whole product extension x pre-existing content x frame count x force_overwrite x entry point is enumerated in both "
              "tiers; each configuration is executed in a scratch directory and SHA-256/size/tree digests of everything there are "
              "compared before and after. Overwrites are compared with the same data written to a fresh path (load-equal, same size).")
LEVEL_NOTE = "Trusts SHA-256 and the filesystem; refusal may be any exception; new sibling files on refusal are labelled, not failed."
