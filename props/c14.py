"""C14 - reported hydrogen bonds are exactly those meeting the stated criteria (baker_hubbard, wernet_nilsson, kabsch_sander)."""
import math
import warnings

import numpy as np
from hypothesis import strategies as st

from vlib import gen, oracle, oracle_hb, structs

ID = "C14"
RULE = ("case = (A) explicit-hydrogen variant of a seed protein (2EQQ / 1vii + ligand + ions + waters / lysozyme fragment; noise, unfolding, "
        "deleted residues, 1-4 frames), optionally in an orthorhombic or triclinic cell with every residue moved by a random lattice vector, "
        "with freq in {0, k/n_frames, 0.1, 0.5, 1}, distance / angle cutoffs, exclude_water, sidechain_only, periodic; oracle = float64 brute "
        "force over all donor-H...acceptor triplets built from the bond graph by element (N-H, O-H donors; N, O acceptors; D != A) using "
        "minimum-image vectors; (B) heavy-atom variants and designed hydrogen-bond graphs for kabsch_sander; oracle = float64 energies "
        "0.084*332*0.1*(1/rON+1/rCH-1/rOH-1/rCN) with H at N + 0.1 nm along the preceding C=O, CA prefilter 0.9 nm, no proline donors, "
        "best two per donor; triplets / pairs within 1e-5 (nm, rad) or 1e-3 kcal/mol of a threshold are not compared; non-trivial = an "
        "accepted and a rejected candidate both within 10x the exclusion band, or freq strictly between observed frequencies, or periodic "
        "with a residue shifted across the cell")
RULE += ('; widened: residues renamed to non-standard protein names; kabsch_sander asked again on the same object after a backbone atom was renamed in place and after the name was restored')
QUICK = {"examples": 300, "shards": 12, "budget_s": 110}
THOROUGH = {"examples": 2500, "shards": 16, "budget_s": 1700}
ASSUMPTIONS = ["wernet_nilsson: the whole documented criterion is r_DA < 0.33 nm - 0.000044 nm * delta^2 (delta = H-D...A in degrees); no further cap",
               "kabsch_sander: residues whose predecessor lacks backbone C or O have no documented hydrogen placement and are not value-compared",
               "periodic cells are >= 4 nm wide, far above every cutoff"]
WHERE = {}


@st.composite
def strategy(draw, tier="quick"):
    which = draw(st.sampled_from(["bh", "bh", "wn", "ks", "ks-designed"]))
    if which == "ks-designed":
        case = {"which": "ks", "design": draw(structs.designed_pattern())}
        if draw(st.integers(0, 4)) == 0:
            case["rename_between"] = [draw(st.integers(0, 200)), draw(st.integers(0, 3))]
        return case
    p = draw(structs.variant_params(need_h=(which != "ks"), max_res=40))
    case = {"which": which, "p": p}
    if which == "ks" and draw(st.integers(0, 3)) == 0:
        case["rename_between"] = [draw(st.integers(0, 200)), draw(st.integers(0, 3))]
    if which in ("bh", "wn"):
        case.update(exclude_water=draw(st.booleans()), sidechain_only=draw(st.integers(0, 3)) == 0,
                    periodic=draw(st.booleans()), cell=draw(st.sampled_from([None, "ortho", "tric", "ortho-then-tric", "tric-then-ortho"])),
                    scatter=draw(st.sampled_from(["residues", "atoms"])))
    if which == "bh":
        nf = p["nf"]
        case.update(freq=draw(st.sampled_from([0.0, 0.1, 0.5, 1.0] + [k / nf for k in range(nf + 1)])),
                    dcut=draw(st.sampled_from([0.25, 0.25, 0.2, 0.3])), acut=draw(st.sampled_from([120.0, 120.0, 100.0, 140.0])))
    return case


def _periodic_setup(t, case):
    """put the system in a cell and move every residue by a random lattice vector"""
    if not case.get("cell"):
        return t, None, False
    nf = t.n_frames
    def rect(f):
        # the shape of the cell may change along the trajectory: rectangular first frame and skewed later ones, or the reverse
        return {"ortho": True, "ortho-then-tric": f == 0, "tric-then-ortho": f == nf - 1 and nf > 1}.get(case["cell"], False)
    cells = [{"kind": "ortho" if rect(f) else "tric", "L": [6.0 + 0.05 * f, 7.0, 8.0], "A": [90.0, 90.0, 90.0] if rect(f) else [75.0, 85.0, 100.0]}
             for f in range(nf)]
    Hs = gen.cell_matrices(cells)
    rng = np.random.Generator(np.random.PCG64(case["p"]["rseed"] + 17))
    x = t.xyz.astype(np.float64) + 2.0
    shifted = False
    if case.get("periodic"):
        if case.get("scatter") == "atoms":
            # every atom wrapped on its own (as simulation engines write them): a donor and its hydrogen may sit in different images
            sh = rng.integers(-1, 2, (t.n_atoms, 3))
            shifted = bool(sh.any())
            for f in range(nf):
                x[f] += sh @ Hs[f]
        else:
            for r in t.topology.residues:
                sh = rng.integers(-1, 2, 3)
                if sh.any():
                    shifted = True
                idx = [a.index for a in r.atoms]
                for f in range(nf):
                    x[f, idx] += sh @ Hs[f]
    t2 = gen.make_traj(x.astype(np.float32), cells, top=t.topology)
    Hs = [gen.box_vectors(t2.unitcell_lengths[f], t2.unitcell_angles[f]) for f in range(nf)]
    return t2, Hs, shifted


def _triplets(top, exclude_water, sidechain_only):
    def ok(a):
        if exclude_water and a.residue.name in ("HOH", "WAT", "TIP3", "H2O", "SOL"):
            return False
        if sidechain_only and not (a.residue.is_protein and a.name not in ("C", "CA", "N", "O", "HA", "H")):
            return False
        return True
    donors = []
    for b in top.bonds:
        a0, a1 = b[0], b[1]
        s = {a0.element.symbol, a1.element.symbol}
        if s in ({"N", "H"}, {"O", "H"}) and ok(a0) and ok(a1):
            d, h = (a0, a1) if a1.element.symbol == "H" else (a1, a0)
            donors.append((d.index, h.index))
    acc = [a.index for a in top.atoms if a.element.symbol in ("N", "O") and ok(a)]
    return np.array([(d, h, a) for d, h in donors for a in acc if a != d], dtype=int).reshape(-1, 3)


def _vec(x, i, j, H):
    d = x[j] - x[i]
    if H is None:
        return d
    return oracle.mic(d, H)[0]


def run_case(case):
    import mdtraj as md
    viol, labels = [], ["which:" + case["which"]]
    nontrivial = False
    with warnings.catch_warnings():
        warnings.simplefilter("ignore")
        if case["which"] == "ks":
            t = structs.build(case["p"]) if "p" in case else structs.build_designed(case["design"])
            labels.append("designed" if "design" in case else "seed-variant")
            near = False
            def ks_check(tag):
                nonlocal near
                ks = md.kabsch_sander(t)
                bb = oracle_hb.backbone_indices(t.topology)
                if len(ks) != t.n_frames:
                    viol.append((tag + "ks/n_frames", str(len(ks))))
                    return
                for f in range(t.n_frames):
                    best, amb, undef, skip = oracle_hb.ks_reference(t.xyz[f], bb)
                    M = ks[f].tocoo()
                    if M.shape != (t.n_residues, t.n_residues):
                        viol.append((tag + "ks/shape", str(M.shape)))
                        break
                    got = {(int(c), int(r)): float(v) for r, c, v in zip(M.row, M.col, M.data)}   # entry [acceptor row, donor column]
                    exp = {(d, a): e for d, v in best.items() for e, a in v}
                    # a donor with three or more candidates whose 2nd and 3rd energies are within 1e-3: best-two ambiguous
                    for k in sorted(set(got) | set(exp)):
                        if k in amb or (k[1], k[0]) in amb or k[0] in undef:
                            near = True
                            continue
                        d = k[0]
                        if (k in got) != (k in exp):
                            # best-two bookkeeping tie?
                            viol.append((tag + "ks/bond-set", "frame %d donor residue %d -> acceptor residue %d: %s by mdtraj (E=%s), %s by the documented "
                                         "formula (E=%s)" % (f, k[0], k[1], "reported" if k in got else "absent", got.get(k), "a bond" if k in exp else "no bond", exp.get(k))))
                            break
                        if not abs(got[k] - exp[k]) <= 2e-3 * max(1.0, abs(exp[k])):
                            viol.append((tag + "ks/energy", "frame %d pair %s: energy %.5f, formula %.5f" % (f, k, got[k], exp[k])))
                            break
                    if viol:
                        break
                    if any(abs(e + 0.5) < 0.2 for e in exp.values()):
                        near = True
            ks_check("")
            rb = case.get("rename_between")
            if rb and not viol:
                # the same Trajectory object asked again after a backbone atom was renamed in place, and after the name was restored
                bb0 = oracle_hb.backbone_indices(t.topology)
                complete = [i for i, b in enumerate(bb0) if min(b[:4]) >= 0]
                if complete:
                    atom = t.topology.atom(bb0[complete[rb[0] % len(complete)]][rb[1] % 4])
                    old = atom.name
                    labels.append("renamed-in-place:" + old)
                    try:
                        atom.name = old + "X"
                        ks_check("after-rename/")
                    finally:
                        atom.name = old
                    if not viol:
                        ks_check("after-restore/")
            nontrivial = near or "design" in case
            return {"viol": viol, "labels": labels, "nontrivial": bool(nontrivial)}

        t = structs.build(case["p"])
        t, Hs, shifted = _periodic_setup(t, case)
        use_cell = Hs is not None and case["periodic"]
        trip = _triplets(t.topology, case["exclude_water"], case["sidechain_only"])
        nf = t.n_frames
        x = t.xyz.astype(np.float64)
        if len(trip) == 0:
            labels.append("no-candidates")
        D, Hh, A = (trip[:, 0], trip[:, 1], trip[:, 2]) if len(trip) else (np.zeros(0, int),) * 3
        if case["which"] == "bh":
            dcut, acut, freq = case["dcut"], math.radians(case["acut"]), case["freq"]
            present = np.zeros((nf, len(trip)), bool)
            amb = np.zeros(len(trip), bool)
            close = np.zeros(len(trip), bool)
            for f in range(nf):
                H_ = Hs[f] if use_cell else None
                v_ha = _vec(x[f], Hh, A, H_)
                v_hd = _vec(x[f], Hh, D, H_)
                dist = np.linalg.norm(v_ha, axis=1)
                ang = oracle.angle(v_hd, v_ha)
                present[f] = (dist < dcut) & (ang > acut)
                # the function works on float32 coordinates (resolution eps32*|x|): a distance is uncertain by a few of those, an
                # angle by that over the shorter leg (kicked / unfolded variants have legs of 0.05 nm, scattered atoms sit 20 nm out)
                res = oracle.EPS32 * (float(np.abs(x[f]).max()) + 1.0)
                dmar = 1e-5 + 8 * res
                amar = 1e-5 + 16 * res / np.maximum(np.minimum(dist, np.linalg.norm(v_hd, axis=1)), 1e-3)
                amb |= (np.abs(dist - dcut) <= dmar) | ((np.abs(ang - acut) <= amar) & (dist < dcut + dmar))
                close |= (np.abs(dist - dcut) <= 1e-3) | (np.abs(ang - acut) <= 1e-2)
            frac = present.sum(0) / nf
            want = {tuple(int(v) for v in trip[k]) for k in range(len(trip)) if frac[k] > freq and not amb[k]}
            maybe = {tuple(int(v) for v in trip[k]) for k in range(len(trip)) if amb[k]}
            if len(trip) == 0 and not any(True for _ in t.topology.bonds):
                return {"viol": [], "labels": labels + ["no-bonds"], "nontrivial": False}
            got_arr = md.baker_hubbard(t, freq=freq, exclude_water=case["exclude_water"], periodic=case["periodic"],
                                       sidechain_only=case["sidechain_only"], distance_cutoff=dcut, angle_cutoff=case["acut"])
            got = {tuple(int(v) for v in r) for r in np.asarray(got_arr).reshape(-1, 3)}
            if len(got) != len(np.asarray(got_arr).reshape(-1, 3)):
                viol.append(("bh/duplicates", "a triplet is reported twice"))
            lost = want - got
            extra = got - want - maybe
            if lost:
                k = sorted(lost)[0]
                viol.append(("bh/lost", "triplet D=%d H=%d A=%d meets the criteria in %.3g of the frames (> freq %.3g) but is not reported" % (
                    k + (float(frac[[tuple(r) for r in trip.tolist()].index(k)]), freq))))
            if extra:
                k = sorted(extra)[0]
                fr = float(frac[[tuple(r) for r in trip.tolist()].index(k)]) if k in {tuple(r) for r in trip.tolist()} else -1.0
                viol.append(("bh/extra", "triplet D=%d H=%d A=%d reported, criteria met in %.3g of the frames (freq %.3g)" % (k + (fr, freq))))
            nontrivial = bool(want) and bool((close & ~amb).any())
            fr_vals = sorted(set(frac.tolist()))
            if any(a < freq < b for a, b in zip(fr_vals, fr_vals[1:])):
                nontrivial = True
        else:
            got_list = md.wernet_nilsson(t, exclude_water=case["exclude_water"], periodic=case["periodic"], sidechain_only=case["sidechain_only"])
            if len(got_list) != nf:
                viol.append(("wn/n_frames", str(len(got_list))))
            else:
                for f in range(nf):
                    H_ = Hs[f] if use_cell else None
                    v_da = _vec(x[f], D, A, H_)
                    v_dh = _vec(x[f], D, Hh, H_)
                    rda = np.linalg.norm(v_da, axis=1)
                    delta = np.degrees(oracle.angle(v_dh, v_da))
                    cut = 0.33 - 0.000044 * delta ** 2
                    ok = rda < cut
                    # sensitivity of the cutoff to the angle: d(cut)/d(delta[rad]) = 2*0.000044*delta*(180/pi)
                    res = oracle.EPS32 * (float(np.abs(x[f]).max()) + 1.0)
                    aerr = 1e-5 + 16 * res / np.maximum(np.minimum(rda, np.linalg.norm(v_dh, axis=1)), 1e-3)
                    band = 1e-5 + 8 * res + aerr * (2 * 0.000044 * delta * 180 / math.pi)
                    amb = np.abs(rda - cut) <= band
                    want = {tuple(int(v) for v in trip[k]) for k in range(len(trip)) if ok[k] and not amb[k]}
                    maybe = {tuple(int(v) for v in trip[k]) for k in range(len(trip)) if amb[k]}
                    got = {tuple(int(v) for v in r) for r in np.asarray(got_list[f]).reshape(-1, 3)}
                    if want - got:
                        k = sorted(want - got)[0]
                        i = [tuple(r) for r in trip.tolist()].index(k)
                        viol.append(("wn/lost", "frame %d triplet D=%d H=%d A=%d: r_DA=%.5f < 0.33-0.000044*%.3f^2=%.5f but not reported" % (
                            (f,) + k + (rda[i], delta[i], cut[i]))))
                        break
                    if got - want - maybe:
                        k = sorted(got - want - maybe)[0]
                        trl = [tuple(r) for r in trip.tolist()]
                        if k in trl:
                            i = trl.index(k)
                            viol.append(("wn/extra", "frame %d triplet D=%d H=%d A=%d reported: r_DA=%.5f, cone cutoff %.5f (delta %.3f deg)" % (
                                (f,) + k + (rda[i], cut[i], delta[i]))))
                        else:
                            viol.append(("wn/extra-not-a-candidate", "frame %d triplet %s is not a donor-H...acceptor candidate of the topology" % (f, k)))
                        break
                    if want and (np.abs(rda - cut) < 1e-3).any():
                        nontrivial = True
                    if want and (~ok).any():
                        nontrivial = nontrivial or bool(((rda - cut)[~ok] < 0.02).any())
        if use_cell and shifted:
            labels.append("periodic-shifted")
            nontrivial = nontrivial or True
        if case["sidechain_only"]:
            labels.append("sidechain_only")
        if case["exclude_water"]:
            labels.append("exclude_water")
    return {"viol": viol, "labels": labels, "nontrivial": bool(nontrivial)}


TECHNIQUE = "property-based testing (Hypothesis) against float64 brute-force evaluation of the stated criteria on minimum-image vectors; designed bond graphs for the Kabsch-Sander kernel"
LEVEL_TEXT = ("Generated explicit-hydrogen systems (perturbed, unfolded, edited seed structures with ligand, ions and water; optional periodic cell "
              "with residues scattered over images) are analysed by baker_hubbard and wernet_nilsson and compared as sets with a float64 brute "
              "force over all candidate triplets; kabsch_sander is compared pair by pair (bond set and energies) with the documented formula on "
              "seed variants and on synthetic structures realising designed bond graphs.")
LEVEL_NOTE = "Candidate construction (which bonds are donors, which atoms acceptors) is re-derived from the documentation; thresholds excluded within the stated margins."
