"""C03 - slicing / joining / stacking act like array indexing on all fields; no stale cached state; observers do not
modify their input.  Model-based: an operation history (plain data) is interpreted against real Trajectory objects and
numpy models."""
import copy as _copy
import os
import warnings

import math
import numpy as np
from hypothesis import strategies as st

from vlib import files

ID = "C03"
RULE = ("case = history of <=14 operations over a pool of trajectories (120-atom solvated peptide fragment, 6 frames of distinct "
        "size, with or without cell): t[key] for int/negative int/slice/reversed slice/index list/bool mask, slice(copy=False), "
        "join / + / md.join, stack, atom_slice(inplace T/F), remove_solvent, center_coordinates(+-mass), superpose, assignment of "
        "xyz/time/cell, observers (rmsd precentered, ~45 analysis and save functions); oracle = numpy model per pooled trajectory "
        "(exact), no shared memory between pooled objects, precentered-RMSD == from-scratch RMSD whenever the coordinates are in "
        "fact centred, byte snapshot of the input before/after every observer; non-trivial = a centring followed by >=1 indexing / "
        "atom operation before a precentered RMSD is observed, or >=4 structural operations")
RULE += ('; widened: times of several dtypes (float64, float32 fractional, int64, large float64) so that joined pieces mix them; pieces built without time=; coordinates edited in place before a second centring')
QUICK = {"examples": 400, "shards": 12, "budget_s": 110}
THOROUGH = {"examples": 2500, "shards": 16, "budget_s": 1500}
ASSUMPTIONS = ["functions whose docstring documents in-place modification are not required to leave the input untouched: md.rmsd / "
               "md.rmsf (centre the coordinates), superpose, center_coordinates, *(inplace=True), smooth(inplace=True)",
               "superpose / center results are compared with a float64 reference (1e-4 nm) and the model is then re-based on them"]
WHERE = {}
_BASE = {}


def base(cell):
    """6-frame, ~120-atom solvated fragment cut from seeds/mix.h5; frames have clearly different sizes (different traces)"""
    if cell in _BASE:
        return _BASE[cell]
    import mdtraj as md
    with warnings.catch_warnings():
        warnings.simplefilter("ignore")
        m = md.load(os.path.join(files.VERIF, "seeds", "mix.h5"))
    keep = []
    nres = 0
    nwat = 0
    for r in m.topology.residues:
        if r.is_protein and nres < 6:
            keep += [a.index for a in r.atoms]
            nres += 1
        elif r.name == "CL":
            keep += [a.index for a in r.atoms]
        elif r.name == "HOH" and nwat < 6:
            keep += [a.index for a in r.atoms]
            nwat += 1
    f0 = m[0].atom_slice(sorted(keep))
    rng = np.random.Generator(np.random.PCG64(11))
    x0 = f0.xyz[0].astype(np.float64)
    x0 -= x0.mean(0)
    frames = []
    for f in range(6):
        frames.append((x0 * (1 + 0.3 * f) + rng.normal(0, 0.02, x0.shape) + np.array([1.5, 2.0, 2.5])).astype(np.float32))
    t = md.Trajectory(np.array(frames), f0.topology, time=np.arange(6) * 2.0 + 1.1)   # (x.1: not a float32 value)
    if cell:
        t.unitcell_lengths = np.array([[6.0 + 0.1 * f, 7.0, 8.0] for f in range(6)], dtype=np.float32)
        t.unitcell_angles = np.array([[90.0, 90.0, 90.0]] * 6, dtype=np.float32)
    _BASE[cell] = t
    return t


OPS = ["index", "index", "index", "slice_view", "join", "join", "stack", "atom_slice", "atom_slice", "remove_solvent", "center",
       "center", "superpose", "set_xyz", "set_time", "set_cell", "obs_rmsd", "obs_rmsd", "obs_analysis", "obs_analysis"]


@st.composite
def strategy(draw, tier="quick"):
    n = draw(st.integers(1, 14))
    ops = []
    for _ in range(n):
        name = draw(st.sampled_from(OPS))
        ops.append([name, draw(st.integers(0, 7)), draw(st.integers(0, 7)), draw(st.integers(0, 10 ** 6)),
                    draw(st.sampled_from(["int", "neg", "slice", "rev", "list", "mask", "npint", "npneg", "nparray", "range"])), draw(st.booleans())])
    return {"cell": draw(st.booleans()), "ops": ops}


# ------------------------------------------------------------------------------------------------------------------

def _sig(top):
    return tuple((a.name, a.residue.name, a.residue.resSeq, a.residue.chain.index) for a in top.atoms), \
        tuple(sorted((b[0].index, b[1].index) for b in top.bonds))


class Entry:
    def __init__(self, t, atoms):
        self.t = t
        self.xyz = t.xyz.copy()
        self.time = t.time.copy()
        self.L = None if t.unitcell_lengths is None else np.array(t.unitcell_lengths).copy()
        self.A = None if t.unitcell_angles is None else np.array(t.unitcell_angles).copy()
        self.atoms = tuple(atoms)
        self.sig = _sig(t.topology)
        self.loose = False   # produced by stack(): only its coordinates are required to be independent

    def model_index(self, key):
        e = _copy.copy(self)
        if isinstance(key, range):
            key = list(key)
        e.xyz = self.xyz[key]
        e.time = self.time[key]
        e.L = None if self.L is None else self.L[key]
        e.A = None if self.A is None else self.A[key]
        if e.xyz.ndim == 2:
            e.xyz = e.xyz[None]
            e.time = np.atleast_1d(e.time)
            e.L = None if e.L is None else e.L[None]
            e.A = None if e.A is None else e.A[None]
        return e


def _key(kind, r, n):
    if kind == "int":
        return r % n
    if kind == "neg":
        return -(r % n) - 1
    if kind == "slice":
        return slice(r % n, n, 1 + (r // 7) % 3)
    if kind == "rev":
        return slice(None, None, -1 - (r % 2))
    if kind == "list":
        return [(r + 5 * i) % n for i in range(1 + r % 4)]
    if kind == "npint":      # what np.argmax / iterating over np.arange hands out
        return np.int64(r % n)
    if kind == "npneg":
        return np.int32(-(r % n) - 1)
    if kind == "nparray":
        return np.array([(r + 5 * i) % n for i in range(1 + r % 4)], dtype=np.int64)
    if kind == "range":
        return range(r % n, n, 1 + r % 2)
    m = np.array([(r >> i) & 1 == 1 for i in range(n)])
    m[r % n] = True
    return m


def _same(real, e, tag, viol):
    t = real
    if t.xyz.shape != e.xyz.shape or not np.array_equal(t.xyz, e.xyz):
        viol.append((tag + "/xyz", "coordinates differ from the numpy model (shape %s vs %s)" % (t.xyz.shape, e.xyz.shape)))
        return False
    if t.time.shape != e.time.shape or not np.array_equal(t.time, e.time):
        viol.append((tag + "/time", "time %s model %s" % (t.time[:6], e.time[:6])))
        return False
    for nm, r, m_ in (("unitcell_lengths", t.unitcell_lengths, e.L), ("unitcell_angles", t.unitcell_angles, e.A)):
        if (r is None) != (m_ is None):
            viol.append((tag + "/cell-presence", "%s real %s model %s" % (nm, r is not None, m_ is not None)))
            return False
        if r is not None and (r.shape != m_.shape or not np.allclose(r, m_, rtol=1e-6, atol=0)):
            viol.append((tag + "/cell", "%s differs from the model" % nm))
            return False
    n = t.n_frames
    if len(t.time) != n or (t.unitcell_lengths is not None and len(t.unitcell_lengths) != n) or \
            (t.unitcell_angles is not None and len(t.unitcell_angles) != n):
        viol.append((tag + "/field-lengths", "per-frame fields of different length"))
        return False
    if t.topology is not None and _sig(t.topology) != e.sig:
        viol.append((tag + "/topology", "topology differs from the model"))
        return False
    if t.topology is not None and t.topology.n_atoms != t.xyz.shape[1]:
        viol.append((tag + "/topology", "topology has %d atoms, xyz %d" % (t.topology.n_atoms, t.xyz.shape[1])))
        return False
    return True


def _arrays(t):
    out = [t._xyz, t._time]
    if t._unitcell_lengths is not None:
        out.append(t._unitcell_lengths)
    if t._unitcell_angles is not None:
        out.append(t._unitcell_angles)
    if getattr(t, "_rmsd_traces", None) is not None:
        out.append(t._rmsd_traces)
    return out


def _no_sharing(pool, tag, viol, full=True):
    for i in range(len(pool)):
        for j in range(i + 1, len(pool)):
            a, b = pool[i].t, pool[j].t
            if np.shares_memory(a._xyz, b._xyz):
                viol.append((tag + "/shared-xyz", "pool[%d] and pool[%d] share coordinate memory" % (i, j)))
                return
            if full and not (pool[i].loose or pool[j].loose):
                for u in _arrays(a):
                    for v in _arrays(b):
                        if np.shares_memory(u, v):
                            viol.append((tag + "/shared-data", "pool[%d] and pool[%d] share a mutable array" % (i, j)))
                            return
                if a.topology is b.topology:
                    viol.append((tag + "/shared-topology", "pool[%d] and pool[%d] share one Topology object" % (i, j)))
                    return


def _centred(x):
    scale = max(1.0, float(np.abs(x).max()))
    return bool((np.abs(x.astype(np.float64).mean(1)) < 2e-5 * scale).all())


def _cache_ok(e, tag, viol):
    """md.rmsd(precentered=True) == RMSD from scratch.  With cached traces the shortcut is taken; without, md.rmsd
    centres the coordinates itself (documented in-place effect) - either way the value must be right after any history
    of the listed operations, because each of them must keep or drop the cache consistently."""
    import mdtraj as md
    t = e.t
    if t.n_atoms < 3:
        return False
    had_traces = getattr(t, "_rmsd_traces", None) is not None
    x_before = t.xyz.astype(np.float64)
    # QCP works on the mean-square deviation: near zero RMSD its float32 error is ~sqrt(c*eps*S), S = Ga/N + Gb/N
    S = 2.0 * float(((x_before - x_before.mean(1)[:, None, :]) ** 2).sum(2).mean(1).max())
    atol = 2e-3 + float(np.sqrt(64 * 1.1920929e-07 * S))
    for f in sorted({0, t.n_frames - 1}):
        ref = md.rmsd(fresh_copy(t), fresh_copy(t), f, precentered=False)
        got = md.rmsd(t, t, f, precentered=True)
        if got.shape != ref.shape or not np.allclose(got, ref, atol=atol, rtol=1e-3):
            viol.append((tag + "/stale-cache", "rmsd(precentered=True) %s vs from scratch %s (frame %d, cached traces: %s)" % (
                np.round(got[:6], 4), np.round(ref[:6], 4), f, had_traces)))
            return True
    # documented side effect: without cached traces md.rmsd centres the conformations in place
    moved = np.abs(t.xyz - x_before).max()
    if moved > 0:
        centred = x_before - x_before.mean(1)[:, None, :]
        if had_traces and moved > 1e-5:
            viol.append((tag + "/observer-modified-input", "rmsd(precentered=True) with cached traces moved the coordinates by %.3g" % moved))
        elif not np.abs(t.xyz - centred).max() <= 1e-4:
            viol.append((tag + "/observer-modified-input", "md.rmsd changed the coordinates other than by centring them"))
        e.xyz = t.xyz.copy()
    return True


def fresh_copy(t):
    import mdtraj as md
    return md.Trajectory(t.xyz.copy(), t.topology)


def _snapshot(t):
    import hashlib
    h = hashlib.sha256()
    for a in (t._xyz, t._time, t._unitcell_lengths, t._unitcell_angles):
        h.update(b"N" if a is None else np.ascontiguousarray(a).tobytes() + str(a.dtype).encode() + str(a.shape).encode())
    h.update(repr(_sig(t.topology)).encode())
    return h.hexdigest()


def _observers():
    import mdtraj as md
    g = md.geometry

    def pairs(t):
        return np.array([[0, 1], [2, t.n_atoms - 1], [3, 5]])

    def save(ext):
        def f(t):
            with files.scratch() as d:
                t.save(os.path.join(d, "o." + ext))
        return f
    obs = [
        ("compute_distances", lambda t: md.compute_distances(t, pairs(t))),
        ("compute_displacements", lambda t: md.compute_displacements(t, pairs(t))),
        ("compute_angles", lambda t: md.compute_angles(t, [[0, 1, 2], [3, 4, 5]])),
        ("compute_dihedrals", lambda t: md.compute_dihedrals(t, [[0, 1, 2, 3], [3, 4, 5, 6]])),
        ("compute_phi", md.compute_phi), ("compute_psi", md.compute_psi), ("compute_omega", md.compute_omega),
        ("compute_chi1", md.compute_chi1),
        ("compute_rg", md.compute_rg), ("compute_center_of_mass", md.compute_center_of_mass),
        ("compute_center_of_geometry", md.compute_center_of_geometry),
        ("compute_gyration_tensor", md.compute_gyration_tensor), ("principal_moments", md.principal_moments),
        ("asphericity", md.asphericity), ("acylindricity", md.acylindricity),
        ("relative_shape_antisotropy", md.relative_shape_antisotropy),
        ("compute_inertia_tensor", md.compute_inertia_tensor),
        ("compute_contacts", lambda t: md.compute_contacts(t, "all", scheme="closest-heavy")),
        ("compute_neighbors", lambda t: md.compute_neighbors(t, 0.4, [0, 1])),
        ("compute_neighborlist", lambda t: md.compute_neighborlist(t, 0.4, 0)),
        ("shrake_rupley", lambda t: md.shrake_rupley(t, n_sphere_points=30)),
        ("compute_dssp", md.compute_dssp), ("kabsch_sander", md.kabsch_sander),
        ("baker_hubbard", md.baker_hubbard), ("wernet_nilsson", md.wernet_nilsson),
        ("compute_drid", md.compute_drid),
        ("density", lambda t: md.density(t) if t.unitcell_lengths is not None else None),
        ("compute_rdf", lambda t: md.compute_rdf(t, pairs(t), r_range=(0, 1)) if t.unitcell_lengths is not None else None),
        ("find_closest_contact", lambda t: g.distance.find_closest_contact(t, [0, 1], [4, 5])),
        ("atom_slice", lambda t: t.atom_slice([0, 2, 3])),
        ("remove_solvent", lambda t: t.remove_solvent()),
        ("slice", lambda t: t[::2]), ("join", lambda t: t.join(t)), ("stack-other", lambda t: t.atom_slice([0, 1]).stack(t.atom_slice([2, 3]))),
        ("smooth", lambda t: t.smooth(3) if t.n_frames >= 5 else None),
        ("image_molecules", lambda t: t.image_molecules(inplace=False) if t.unitcell_lengths is not None else None),
        ("make_molecules_whole", lambda t: t.make_molecules_whole(inplace=False) if t.unitcell_lengths is not None else None),
        ("select", lambda t: t.topology.select("protein and name CA")),
        ("to_dataframe", lambda t: t.topology.to_dataframe()),
        ("copy-superpose", lambda t: fresh_copy(t).superpose(t, 0)),
        ("save-h5", save("h5")), ("save-pdb", save("pdb")), ("save-xtc", save("xtc")), ("save-dcd", save("dcd")),
        ("save-nc", save("nc")), ("save-gro", save("gro")), ("save-xyz", save("xyz")), ("save-trr", save("trr")),
        ("save-mdcrd", save("mdcrd")), ("save-lammpstrj", save("lammpstrj")), ("save-rst7", save("rst7")), ("save-ncrst", save("ncrst")),
        ("save-dtr", save("dtr")), ("save-pdb.gz", save("pdb.gz")), ("save-xyz.gz", save("xyz.gz")),
    ]
    return obs


_OBS = None


def run_case(case):
    import mdtraj as md
    from vlib import oracle
    global _OBS
    if _OBS is None:
        _OBS = _observers()
    viol, labels = [], []
    b = base(case["cell"])
    t0 = b[:]  # private copy for this case
    pool = [Entry(t0, range(t0.n_atoms))]
    centred_then_struct = False
    had_center = False
    struct_after_center = 0
    n_struct = 0
    n_stack_ops = 0
    observed_cache = False
    with warnings.catch_warnings():
        warnings.simplefilter("ignore")
        for op in case["ops"]:
            name, i1, i2, r, kind, flag = op
            src = pool[i1 % len(pool)]
            tag = name
            new = None
            if name == "index":
                key = _key(kind, r, src.t.n_frames)
                tag = "index-" + kind
                out = src.t[key]
                new = src.model_index(key)
                new.t = out
            elif name == "slice_view":
                key = _key(kind, r, src.t.n_frames)
                tag = "slice(copy=False)-" + kind
                view = src.t.slice(key, copy=False)
                m_ = src.model_index(key)
                _same(view, m_, tag, viol)
                if not viol and getattr(src.t, "_rmsd_traces", None) is not None:
                    tmp = Entry(view, src.atoms)
                    _cache_ok(tmp, tag, viol)
            elif name == "join":
                others = [p for p in pool if p.atoms == src.atoms and (p.L is None) == (src.L is None)]
                oth = others[i2 % len(others)]
                how = ["join", "plus", "mdjoin"][r % 3]
                discard = bool(flag) and how != "plus"
                if discard and (r // 3) % 2 and src.t.n_frames >= 1:
                    # make the documented overlap certain: the other operand starts with a copy of this one's last frame
                    key = [src.t.n_frames - 1] + list(range(min(src.t.n_frames, 2)))
                    oth = src.model_index(key)
                    oth.t = src.t[key]
                tag = "join-" + how + ("-discard" if discard else "")
                if how == "join":
                    out = src.t.join(oth.t, discard_overlapping_frames=True) if discard else src.t.join(oth.t)
                elif how == "plus":
                    out = src.t + oth.t
                elif (r // 6) % 3 == 1 and not discard:
                    # pieces built directly from arrays, without time=: each counts its own frames 0, 1, 2, ... and the joined
                    # trajectory carries those times one after the other (as a.join(b) does)
                    tag = "join-mdjoin-fresh-pieces"
                    fresh, models = [], []
                    for p_ in (src, oth, src):
                        kw_ = {} if p_.L is None else {"unitcell_lengths": p_.L.copy(), "unitcell_angles": p_.A.copy()}
                        fresh.append(md.Trajectory(p_.xyz.copy(), p_.t.topology, **kw_))
                        m_ = _copy.copy(p_)
                        m_.time = np.arange(len(p_.xyz), dtype=p_.time.dtype)
                        models.append(m_)
                    out = md.join(fresh)
                    src_models = models
                else:
                    out = md.join([src.t, oth.t, src.t], discard_overlapping_frames=True) if discard else md.join([src.t, oth.t, src.t])
                parts = [src, oth] + ([src] if how == "mdjoin" else [])
                if tag == "join-mdjoin-fresh-pieces":
                    parts = src_models
                if discard:
                    # documented rule: the last frame of a piece is dropped when every coordinate of it lies within 2e-3 nm of
                    # the first frame of the next piece
                    trimmed = []
                    for k, p_ in enumerate(parts):
                        if k + 1 < len(parts) and len(p_.xyz) and len(parts[k + 1].xyz) and \
                                np.all(np.abs(parts[k + 1].xyz[0] - p_.xyz[-1]) < 2e-3):
                            p_ = p_.model_index(slice(0, len(p_.xyz) - 1))
                            labels.append("join-discarded-overlap")
                        trimmed.append(p_)
                    parts = trimmed
                new = _copy.copy(src)
                new.xyz = np.concatenate([p.xyz for p in parts])
                new.time = np.concatenate([p.time for p in parts])
                new.L = None if src.L is None else np.concatenate([p.L for p in parts])
                new.A = None if src.A is None else np.concatenate([p.A for p in parts])
                new.t = out
            elif name == "stack":
                k = max(1, src.t.n_atoms // 3)
                idx = list(range(0, k))
                part = src.t.atom_slice(idx)
                # no coincident atoms (outside the domain of e.g. shrake_rupley): shift depends on the stacking depth
                # (a scalar shift growing with the depth is not enough: after an atom_slice two different histories reach the same
                # depth, and sums of shifts coincide; one direction per stack operation of the case makes every sum of shifts unique)
                n_stack_ops += 1
                k_ = n_stack_ops
                u_ = np.array([math.cos(2.399963 * k_), math.sin(2.399963 * k_), 0.37 + 0.11 * k_])
                part.xyz = part.xyz + (np.float32(0.07 + 0.03 * k_) * u_ / np.linalg.norm(u_)).astype(np.float32)
                out = src.t.stack(part)
                new = _copy.copy(src)
                new.xyz = np.concatenate([src.xyz, part.xyz], axis=1)
                new.atoms = tuple(src.atoms) + ("stack",) + tuple(np.array(src.atoms, dtype=object)[idx])
                new.t = out
                new.loose = True
                new.sig = _sig(out.topology)   # topology join is C04's subject; here only coordinates/time/cell
                if not np.array_equal(out.xyz[:, :src.t.n_atoms], src.xyz):
                    viol.append(("stack/xyz", "first block of the stacked coordinates differs from the source"))
            elif name == "atom_slice":
                n = src.t.n_atoms
                idx = sorted(set([(r + 3 * i) % n for i in range(max(3, n // 2))]))
                if r % 7 == 0:
                    idx = list(range(n))          # every atom kept: still a new, independent object
                tag = "atom_slice-inplace" if flag else "atom_slice"
                parent_top = src.t.topology
                out = src.t.atom_slice(idx, inplace=flag)
                if not flag and out.topology is parent_top:
                    viol.append((tag + "/shares-topology", "the result of atom_slice(inplace=False) holds the source's Topology object (editing one edits the other)"))
                tgt = src if flag else _copy.copy(src)
                if flag and out is not src.t:
                    viol.append((tag + "/identity", "inplace=True did not return self"))
                tgt.xyz = src.xyz[:, idx]
                tgt.atoms = tuple(np.array(src.atoms, dtype=object)[idx])
                tgt.sig = _sig(out.topology)
                if not flag:
                    tgt.t = out
                    new = tgt
            elif name == "remove_solvent":
                tag = "remove_solvent-inplace" if flag else "remove_solvent"
                keep = [a.index for a in src.t.topology.atoms if a.residue.name not in ("HOH", "CL")]
                if len(keep) == 0:
                    continue
                parent_top = src.t.topology
                out = src.t.remove_solvent(inplace=flag)
                if not flag and out.topology is parent_top:
                    viol.append((tag + "/shares-topology", "the result of remove_solvent(inplace=False) holds the source's Topology object"))
                tgt = src if flag else _copy.copy(src)
                tgt.xyz = src.xyz[:, keep]
                tgt.atoms = tuple(np.array(src.atoms, dtype=object)[keep])
                tgt.sig = _sig(out.topology)
                if not flag:
                    tgt.t = out
                    new = tgt
            elif name == "center":
                tag = "center-mass" if flag else "center"
                if kind in ("neg", "rev") and not flag:
                    # the coordinate array is edited in place (a numpy operation on trajectory.xyz, no setter runs) before it is
                    # centred: whatever was cached about the earlier coordinates must not make the centring a no-op
                    src.t.xyz[...] += np.float32(0.75 + (r % 5))
                    src.xyz = src.t.xyz.copy()
                    tag = "edit-in-place-then-center"
                before = src.xyz.astype(np.float64)
                src.t.center_coordinates(mass_weighted=flag)
                if flag:
                    m = np.array([a.element.mass for a in src.t.topology.atoms])
                    c = (before * m[None, :, None]).sum(1) / m.sum()
                else:
                    c = before.mean(1)
                exp = before - c[:, None, :]
                if src.t.xyz.shape != exp.shape or not np.abs(src.t.xyz - exp).max() <= 1e-4:
                    viol.append((tag + "/value", "centred coordinates off by %.3g" % np.abs(src.t.xyz - exp).max()))
                src.xyz = src.t.xyz.copy()
                had_center = had_center or not flag
            elif name == "superpose":
                refs = [p for p in pool if p.atoms == src.atoms]
                ref = refs[i2 % len(refs)]
                f = r % ref.t.n_frames
                sub = None
                if flag and src.t.n_atoms > 6:
                    sub = np.arange(0, src.t.n_atoms, 2)
                before = src.xyz.astype(np.float64)
                refx = ref.xyz[f].astype(np.float64)
                src.t.superpose(ref.t, frame=f, atom_indices=sub)
                sel = slice(None) if sub is None else sub
                worst = 0.0
                for k in range(len(before)):
                    A_, B_ = before[k][sel], refx[sel]
                    rm, R, _S, _s = oracle.kabsch_rmsd(A_, B_)
                    exp = (before[k] - A_.mean(0)) @ R + B_.mean(0)
                    worst = max(worst, float(np.abs(src.t.xyz[k] - exp).max()))
                if worst > 2e-3:
                    viol.append(("superpose/value", "superposed coordinates differ from the Kabsch reference by %.3g nm" % worst))
                src.xyz = src.t.xyz.copy()
            elif name == "set_xyz":
                newx = (src.xyz[::-1] * np.float32(1.0 + (r % 5) * 0.1)).copy()
                src.t.xyz = newx
                src.xyz = newx.copy()
            elif name == "set_time":
                # times of several kinds, as trajectories from different sources carry them: float64, float32 with fractional
                # values, whole numbers (int64, what a trajectory built without time= has), and float64 values that float32
                # cannot hold; joined pieces may mix them
                k_ = r % 4
                if k_ == 0:
                    nt = src.time + 10.0
                elif k_ == 1:
                    nt = (np.asarray(src.time, dtype=np.float64) * 0.5 + 0.25).astype(np.float32)
                elif k_ == 2:
                    nt = np.arange(len(src.time), dtype=np.int64) * 3 + (r % 7)
                else:
                    nt = 1.0e6 + 0.002 * np.arange(len(src.time), dtype=np.float64) + (r % 5)
                labels.append("set_time:" + str(nt.dtype))
                src.t.time = nt
                src.time = nt.copy()
            elif name == "set_cell":
                n = src.t.n_frames
                if flag:
                    src.t.unitcell_vectors = None
                    src.L = src.A = None
                else:
                    L = np.tile(np.array([5.0, 6.0, 7.0 + r % 3], dtype=np.float32), (n, 1))
                    A = np.tile(np.array([90.0, 90.0, 90.0], dtype=np.float32), (n, 1))
                    src.t.unitcell_lengths, src.t.unitcell_angles = L, A
                    src.L, src.A = L.copy(), A.copy()
            elif name == "obs_rmsd":
                if _cache_ok(src, "rmsd-precentered", viol):
                    observed_cache = True
                    if had_center and struct_after_center:
                        centred_then_struct = True
            elif name == "obs_analysis":
                oname, fn = _OBS[r % len(_OBS)]
                if oname.startswith("shrake_rupley") and src.t.n_atoms <= 2000:
                    # coincident atoms are outside the function's domain (the C kernel terminates the process on them)
                    x_ = src.t.xyz.astype(np.float64)
                    d_ = np.linalg.norm(x_[:, :, None, :] - x_[:, None, :, :], axis=-1) + np.eye(src.t.n_atoms)[None] if src.t.n_atoms <= 400 else None
                    if d_ is not None and d_.min() < 1e-4:
                        labels.append("obs-skipped:coincident-atoms")
                        continue
                snap = _snapshot(src.t)
                try:
                    fn(src.t)
                except Exception as e:  # the observer's own correctness is other properties' business
                    labels.append("observer-raised:%s:%s" % (oname, type(e).__name__))
                if _snapshot(src.t) != snap:
                    viol.append(("observer-modified-input/" + oname, "%s changed its input trajectory" % oname))
                labels.append("obs:" + oname)
            if new is not None:
                pool.append(new)
                if len(pool) > 5:
                    pool.pop(0)
            if name in ("index", "join", "stack", "atom_slice", "remove_solvent", "slice_view"):
                n_struct += 1
                if had_center:
                    struct_after_center += 1
            if viol:
                break
            # invariants over the whole pool
            for k, e in enumerate(pool):
                if not _same(e.t, e, tag, viol):
                    break
            if viol:
                break
            _no_sharing(pool, tag, viol)
            if viol:
                break
            for e in pool:
                if getattr(e.t, "_rmsd_traces", None) is not None:
                    if _cache_ok(e, tag, viol):
                        observed_cache = True
                        if had_center and struct_after_center:
                            centred_then_struct = True
                if viol:
                    break
            if viol:
                break
            labels.append("op:" + name)
    return {"viol": viol, "labels": labels, "nontrivial": bool(centred_then_struct or n_struct >= 4)}


TECHNIQUE = "model-based property testing (Hypothesis): operation histories over a pool of trajectories vs numpy models + invariants"
LEVEL_TEXT = ("Generated histories of indexing, joining, stacking, atom slicing, centring, superposition and assignments are applied to "
              "real Trajectory objects and to numpy models; after every step all pooled trajectories must equal their models exactly, "
              "share no memory, and give the same RMSD with the precentered shortcut as from scratch; ~50 observers are snapshot-checked "
              "for leaving their input bit-identical.")
LEVEL_NOTE = "Trusts numpy indexing/concatenation as the model and float64 Kabsch for superpose values."
