"""C12 - every selection expression selects exactly the atoms its meaning denotes."""
import itertools
import os
import re
import threading
import warnings

import numpy as np
from hypothesis import strategies as st

from vlib import files

ID = "C12"
RULE = ("case = expression TREE over the documented grammar (boolean keywords and aliases; int/float/str keywords and aliases compared with "
        "all 12 operator spellings in both operand orders; implicit equality, implicit lists, `lo to hi` ranges, =~ regexes; not/!, and/&&, "
        "or/||; bare, single- and double-quoted literals), rendered to text fully parenthesised or with minimal parentheses under the "
        "standard precedence comparison > not > and > or, on a protein + ligand + ions + water topology with 3 chains; oracle = direct "
        "evaluation of the tree on per-atom attribute tables built from the documented keyword meanings (no parsing); also "
        "eval(select_expression(text)) == select(text); malformed strings built from valid token streams must raise; non-trivial = >=2 "
        "connectives of different kinds, or an operator alias next to a connective")
ENUM_SCOPE = ("all trees of depth <= D over 8 leaves x {not,!} x {and,&&} x {or,||}, both renderings (quick D=1, thorough D=2); "
              "malformed token streams: the full list of constructions x leaf choices")
RULE += ('; widened: the topology also holds capping groups, nucleotides with primed names and atoms named like operator words (either case) or like identifiers of the generated code; one random case in ten and an enumerated block repeat the selection on a copy that was selected from, edited in place (insert / delete atom, add bond, rename atom / residue, renumber residue) and selected from again')
QUICK = {"examples": 350, "shards": 12, "budget_s": 200}
THOROUGH = {"examples": 4000, "shards": 16, "budget_s": 1700}
ASSUMPTIONS = ["standard precedence (comparison binds tighter than not, not tighter than and, and tighter than or); an alias spelling means exactly "
               "what its canonical spelling means (docs/atom_selection.rst lists them as synonyms)",
               "string keywords are compared with == / != / =~ only; numeric keywords with all six relations",
               "every select() runs in a fresh thread so the parser's recursion depth does not depend on the harness' own stack"]
WHERE = {}

BOOL = {"all": ["all", "everything"], "none": ["none", "nothing"], "backbone": ["backbone", "is_backbone"],
        "sidechain": ["sidechain", "is_sidechain"], "protein": ["protein", "is_protein"], "water": ["water", "waters", "is_water"]}
NUMK = {"index": ["index"], "n_bonds": ["n_bonds"], "mass": ["mass"], "resSeq": ["residue", "resSeq"], "resid": ["resid", "resi"],
        "chainid": ["chainid"]}
STRK = {"name": ["name"], "element": ["type", "element", "symbol"], "resname": ["resname", "resn"], "rescode": ["rescode", "code", "resc"]}
CMP = {"<": ["<", "lt"], "<=": ["<=", "le"], "==": ["==", "eq"], "!=": ["!=", "ne"], ">=": [">=", "ge"], ">": [">", "gt"]}
FLIP = {"<": ">", "<=": ">=", "==": "==", "!=": "!=", ">=": "<=", ">": "<"}
CONN = {"not": ["not ", "!"], "and": ["and", "&&"], "or": ["or", "||"]}
RESERVED = {"and", "or", "not", "to", "lt", "le", "eq", "ne", "ge", "gt", "segment_id", "segname", "None", "True", "False"} | \
    {x for d in (BOOL, NUMK, STRK) for v in d.values() for x in v}
# pinned from the documentation of the keywords (docs/atom_selection.rst) and the PDB conventions they refer to
PROTEIN = {"ALA": "A", "ARG": "R", "ASN": "N", "ASP": "D", "CYS": "C", "GLN": "Q", "GLU": "E", "GLY": "G", "HIS": "H", "ILE": "I", "LEU": "L",
           "LYS": "K", "MET": "M", "PHE": "F", "PRO": "P", "SER": "S", "THR": "T", "TRP": "W", "TYR": "Y", "VAL": "V",
           # the capping groups of a peptide chain are protein residues without a one-letter code
           "ACE": None, "NME": None}
WATER = {"HOH", "H2O", "WAT", "TIP3", "TIP4", "SOL"}
BACKBONE = {"N", "CA", "C", "O"}
AMBIGUOUS_BB = {"H", "HA", "HA2", "HA3", "H1", "H2", "H3", "OXT", "HXT"}
REGEXES = ["C.*", "[A-Z]+[0-9]", "H[A-Z]?[0-9]*", ".*A.*", "N", "O.?"]
_TOP = {}


def topology():
    if "top" in _TOP:
        return _TOP["top"], _TOP["attr"], _TOP["pool"]
    import mdtraj as md
    with warnings.catch_warnings():
        warnings.simplefilter("ignore")
        top = md.load(os.path.join(files.VERIF, "seeds", "mix.h5")).topology
        # a nucleotide-like residue whose atom names carry primes and a star (only expressible as quoted literals), next to
        # the unprimed names they must not be confused with
        from mdtraj.core import element as _el
        ch = top.add_chain()
        prev = None
        for rn, rs, atoms_ in (("ACE", 801, (("HH31", _el.hydrogen), ("CH3", _el.carbon), ("HH32", _el.hydrogen), ("C", _el.carbon), ("O", _el.oxygen))),
                               ("ALA", 802, (("N", _el.nitrogen), ("CA", _el.carbon), ("CB", _el.carbon), ("C", _el.carbon), ("O", _el.oxygen))),
                               ("NME", 803, (("N", _el.nitrogen), ("CH3", _el.carbon), ("HH31", _el.hydrogen), ("HH32", _el.hydrogen)))):
            r = top.add_residue(rn, ch, resSeq=rs)      # a capped peptide (alanine dipeptide)
            for nm, e in atoms_:
                a = top.add_atom(nm, e, r)
                if prev is not None:
                    top.add_bond(prev, a)
                prev = a
        ch = top.add_chain()
        # names that happen to coincide with identifiers the implementation uses internally when it compiles a selection
        r = top.add_residue("atom", ch, resSeq=840)
        # ... and lower-case names that begin like an operator word (and, or, lt, le, eq, ne, ge, gt, not, to)
        for nm in ("re", "atom", "topology", "self", "nex", "orange", "left", "gtp", "andy", "eq1", "notch", "tom"):
            top.add_atom(nm, _el.carbon, r)
        # ... and real atom names that are operator words in another case (NE of arginine, GE / Ne as element-like names)
        for nm in ("NE", "GE", "LT", "EQ", "OR", "Not", "AND", "Ne"):
            top.add_atom(nm, _el.carbon, r)
        ch = top.add_chain()
        for k_, rn in enumerate(("WAT", "SOL", "TIP3", "H2O")):       # the other conventional names of a water residue
            r = top.add_residue(rn, ch, resSeq=850 + k_)
            o_ = top.add_atom("O", _el.oxygen, r)
            for hn in ("H1", "H2"):
                top.add_bond(o_, top.add_atom(hn, _el.hydrogen, r))
        ch = top.add_chain()
        for rn, rs in (("G", 901), ("DA5", 902)):
            r = top.add_residue(rn, ch, resSeq=rs)
            prev = None
            for nm, e in (("P", _el.phosphorus), ("O5'", _el.oxygen), ("C5'", _el.carbon), ("C5", _el.carbon), ("O5", _el.oxygen),
                          ("H5''", _el.hydrogen), ("H5'", _el.hydrogen), ("C2'", _el.carbon), ("C2", _el.carbon), ("O2*", _el.oxygen)):
                a = top.add_atom(nm, e, r)
                if prev is not None:
                    top.add_bond(prev, a)
                prev = a
    attr = _attrs(top)
    pool = {k: sorted({x[k] for x in attr if x[k] is not None}, key=str) for k in list(NUMK) + list(STRK)}
    _TOP.update(top=top, attr=attr, pool=pool)
    return top, attr, pool


def _attrs(top):
    """per-atom attribute table from the public structure of a Topology: positions in the chain > residue > atom walk are the
    indices (nothing the selection machinery may have cached is consulted)"""
    pos = {}
    for ci, ch in enumerate(top.chains):
        for r in ch.residues:
            for a in r.atoms:
                pos[id(a)] = len(pos)
    order = {id(a): i for i, a in enumerate(top.atoms)}
    assert all(pos[k] == order[k] for k in pos) and len(pos) == len(order), "harness: residue-wise walk is not the atom order"
    nb = {}
    for b in top.bonds:
        for x in (b[0], b[1]):
            if id(x) in order:
                nb[order[id(x)]] = nb.get(order[id(x)], 0) + 1
    attr = []
    rindex = {id(r): i for i, r in enumerate(top.residues)}
    cindex = {id(c): i for i, c in enumerate(top.chains)}
    for i, a in enumerate(top.atoms):
        r = a.residue
        prot = r.name in PROTEIN
        attr.append({"index": i, "n_bonds": nb.get(i, 0), "mass": a.element.mass, "resSeq": r.resSeq, "resid": rindex[id(r)],
                     "chainid": cindex[id(r.chain)], "name": a.name, "element": a.element.symbol, "resname": r.name,
                     "rescode": PROTEIN.get(r.name), "all": True, "none": False, "protein": prot, "water": r.name in WATER,
                     "backbone": prot and a.name in BACKBONE, "sidechain": prot and a.name not in BACKBONE})
    return attr


EDITS = ["insert-atom", "delete-atom", "add-bond", "rename-atom", "rename-residue", "renumber-residue"]
WARM = "n_bonds 1 or mass > 14 or resid 3 or residue 5 or name CA or water or chainid 1 or resname ALA or backbone or type C or rescode A"


def _edit(top, kind, k):
    """one in-place edit of a Topology through its public editing calls"""
    from mdtraj.core import element as _el
    atoms = list(top.atoms)
    a = atoms[k % len(atoms)]
    if kind == "insert-atom":
        r = a.residue
        top.insert_atom("CX", _el.carbon, r, index=a.index, rindex=[id(x) for x in r.atoms].index(id(a)))
    elif kind == "delete-atom":
        bonded = {id(x) for b in top.bonds for x in (b[0], b[1])}
        free = [x for x in atoms if id(x) not in bonded]      # (a bonded atom would leave its bonds dangling: not a valid edit)
        top.delete_atom_by_index(free[k % len(free)].index)
    elif kind == "add-bond":
        b = atoms[(k + 7) % len(atoms)]
        have = {frozenset((id(x[0]), id(x[1]))) for x in top.bonds}
        if a is not b and frozenset((id(a), id(b))) not in have:
            top.add_bond(a, b)
    elif kind == "rename-atom":
        a.name = "CA" if a.name != "CA" else "CB"
    elif kind == "rename-residue":
        a.residue.name = "HOH" if a.residue.name != "HOH" else "ALA"
    elif kind == "renumber-residue":
        a.residue.resSeq = 5 if a.residue.resSeq != 5 else 6


# ------------------------------------------------------------------------------------------------ trees

def leaf_strategy():
    _top, _attr, pool = topology()

    SPECIAL = {"re", "atom", "topology", "self", "nex", "orange", "left", "gtp", "andy", "eq1", "notch", "tom", "O5'", "C5'", "H5''", "C2'", "O2*", "ACE", "NME", "WAT", "SOL", "TIP3", "H2O", "G", "DA5",
               "NE", "GE", "LT", "EQ", "OR", "Not", "AND", "Ne"}

    def val(k):
        sp = [v for v in pool[k] if v in SPECIAL]
        if sp:      # the rare spellings (quotes, stars, internal identifiers, caps, other water names) get a third of the draws
            return st.one_of(st.sampled_from(pool[k]), st.sampled_from(pool[k]), st.sampled_from(sp))
        return st.sampled_from(pool[k])

    picks = st.tuples(st.integers(0, 2), st.integers(0, 1), st.integers(0, 2))   # keyword alias, operator alias, quoting style
    bool_leaf = st.tuples(st.just("bool"), st.sampled_from(sorted(BOOL)), picks)
    num_cmp = st.sampled_from(sorted(NUMK)).flatmap(lambda k: st.tuples(st.just("cmp"), st.just(k), st.sampled_from(sorted(CMP)), val(k),
                                                                          st.booleans(), picks))
    str_cmp = st.sampled_from(sorted(STRK)).flatmap(lambda k: st.tuples(st.just("cmp"), st.just(k), st.sampled_from(["==", "!="]), val(k),
                                                                          st.booleans(), picks))
    in_list = st.sampled_from(sorted(NUMK) + sorted(STRK)).flatmap(
        lambda k: st.tuples(st.just("in"), st.just(k), st.lists(val(k), min_size=1, max_size=3), picks))
    rng = st.sampled_from(["index", "resSeq", "resid", "mass", "n_bonds", "chainid"]).flatmap(
        lambda k: st.tuples(st.just("range"), st.just(k), val(k), val(k), picks))
    rex = st.tuples(st.just("re"), st.sampled_from(["name", "resname", "element"]), st.sampled_from(REGEXES), picks)
    # a chain of two comparisons around one keyword, `3 < resSeq <= 7`: the conjunction of its links (as the generated source, and
    # the documented expansion of `to` into `low <= x <= high`, say)
    chain = st.sampled_from(["index", "resSeq", "resid", "mass", "n_bonds"]).flatmap(
        lambda k: st.tuples(st.just("chain"), st.just(k), val(k), st.sampled_from(sorted(CMP)), st.sampled_from(sorted(CMP)), val(k), picks))
    return st.one_of(bool_leaf, num_cmp, str_cmp, in_list, rng, rex, chain)


def tree_strategy(max_depth):
    leaf = leaf_strategy()
    pick = st.integers(0, 1)
    return st.recursive(
        leaf,
        lambda ch: st.one_of(st.tuples(st.just("not"), ch, pick), st.tuples(st.just("and"), ch, ch, pick), st.tuples(st.just("or"), ch, ch, pick)),
        max_leaves=max_depth)


@st.composite
def strategy(draw, tier="quick"):
    mode = draw(st.sampled_from(["full", "min", "min", "malformed"]))
    tree = draw(tree_strategy(draw(st.sampled_from([1, 2, 3, 4, 6]))))
    case = {"mode": mode, "tree": _tolist(tree)}
    if mode == "malformed":
        case["how"] = draw(st.sampled_from(MALFORMED))
    elif draw(st.integers(0, 9)) == 0:
        # the same question on a topology that was selected from before and then edited in place
        case["edit"] = [[draw(st.sampled_from(EDITS)), draw(st.integers(0, 2000))] for _ in range(draw(st.integers(1, 3)))]
    return case


def _tolist(t):
    if isinstance(t, tuple):
        return [_tolist(x) for x in t]
    if isinstance(t, list):
        return [_tolist(x) for x in t]
    if isinstance(t, (np.integer,)):
        return int(t)
    if isinstance(t, (np.floating,)):
        return float(t)
    return t


# ('name resname' and 'resid 1 to' are not in this list: the documentation does not reserve keywords or `to` as literals, so they
#  are legitimately read as an implicit equality / implicit list)
MALFORMED = ["unbalanced-open", "unbalanced-close", "dangling-binary", "leading-binary", "adjacent-binary", "empty-parens", "lone-literal",
             "operator-without-operand", "illegal-character", "empty", "glued-keyword", "glued-number", "glued-flag"]


def enumerate_cases(tier):
    _top, _attr, pool = topology()
    leaves = [
        ["bool", "protein", [0, 0, 0]], ["bool", "water", [1, 0, 0]],
        ["cmp", "mass", ">", 13.0, False, [0, 0, 0]], ["cmp", "resid", "<=", 7, False, [1, 1, 0]],
        ["cmp", "name", "==", "CA", False, [0, 1, 1]], ["in", "resname", ["ALA", "LIG"], [1, 0, 0]],
        ["range", "index", 5, 40, [0, 0, 0]], ["re", "name", "C.*", [0, 0, 0]],
    ]
    D = 1 if tier == "quick" else 2

    def trees(depth):
        if depth == 0:
            for lf in leaves:
                yield lf
            return
        for lf in leaves:
            yield lf
        subs = list(trees(depth - 1))
        for p in (0, 1):
            for a in subs:
                yield ["not", a, p]
        for op in ("and", "or"):
            for p in (0, 1):
                for a in subs:
                    for b in subs:
                        yield [op, a, b, p]

    n = 0
    for t in trees(D):
        for mode in ("full", "min"):
            n += 1
            if tier == "thorough" and D == 2 and n % 7 and _depth(t) == 2:
                continue   # depth-2 x depth-2 products: every 7th (the full product is ~10^5 parses per rendering)
            yield {"mode": mode, "tree": t}
    for how in MALFORMED:
        for lf in leaves:
            yield {"mode": "malformed", "tree": ["and", lf, leaves[0], 0], "how": how}
    # every keyword, on a topology edited in place after it had been selected from
    kw_leaves = leaves + [["cmp", "n_bonds", "==", 4, False, [0, 0, 0]], ["cmp", "n_bonds", ">=", 1, False, [0, 0, 0]],
                          ["cmp", "resSeq", "==", 5, False, [0, 0, 0]], ["cmp", "chainid", "==", 1, False, [0, 0, 0]],
                          ["cmp", "element", "==", "C", False, [0, 0, 0]], ["cmp", "rescode", "==", "A", False, [0, 0, 0]],
                          ["bool", "backbone", [0, 0, 0]], ["bool", "sidechain", [0, 0, 0]]]
    for kind in EDITS:
        for k in (9, 764):
            for lf in kw_leaves:
                yield {"mode": "min", "tree": lf, "edit": [[kind, k]]}


def _depth(t):
    if t[0] == "not":
        return 1 + _depth(t[1])
    if t[0] in ("and", "or"):
        return 1 + max(_depth(t[1]), _depth(t[2]))
    return 0


# ------------------------------------------------------------------------------------------------ oracle and rendering

def evaluate(t, a):
    k = t[0]
    if k == "bool":
        return a[t[1]]
    if k == "cmp":
        v, x = a[t[1]], t[3]
        op = t[2]
        if v is None:
            return op == "!="
        return {"<": v < x, "<=": v <= x, "==": v == x, "!=": v != x, ">=": v >= x, ">": v > x}[op]
    if k == "in":
        return a[t[1]] in t[2]
    if k == "range":
        return t[2] <= a[t[1]] <= t[3]
    if k == "chain":
        rel = {"<": lambda u, w: u < w, "<=": lambda u, w: u <= w, "==": lambda u, w: u == w, "!=": lambda u, w: u != w,
               ">=": lambda u, w: u >= w, ">": lambda u, w: u > w}
        return rel[t[3]](t[2], a[t[1]]) and rel[t[4]](a[t[1]], t[5])
    if k == "re":
        return re.match(t[2], a[t[1]]) is not None
    if k == "not":
        return not evaluate(t[1], a)
    if k == "and":
        return evaluate(t[1], a) and evaluate(t[2], a)
    if k == "or":
        return evaluate(t[1], a) or evaluate(t[2], a)
    raise ValueError(k)


def lit(v, style):
    if isinstance(v, str):
        if style == 0 and re.fullmatch("[A-Za-z][A-Za-z0-9]*", v) and v not in RESERVED:
            return v
        if style == 1 and "'" not in v:
            return "'%s'" % v
        if '"' not in v:
            return '"%s"' % v
        return "'%s'" % v
    if isinstance(v, float):
        return repr(float(v))
    return repr(int(v))


PREC = {"or": 1, "and": 2, "not": 3, "cmp": 4, "leaf": 5}


def render(t, full, alias):
    """-> (text, kind).  alias=False: canonical spellings everywhere."""
    k = t[0]
    picks = t[-1] if isinstance(t[-1], list) else [0, 0, 0]

    def pick(options, i):
        return options[i % len(options)] if alias else options[0]

    if k == "bool":
        return pick(BOOL[t[1]], picks[0]), "leaf"
    names = {**NUMK, **STRK}
    if k == "cmp":
        kw = pick(names[t[1]], picks[0])
        if t[4]:
            s = "%s %s %s" % (lit(t[3], picks[2]), pick(CMP[FLIP[t[2]]], picks[1]), kw)
        else:
            s = "%s %s %s" % (kw, pick(CMP[t[2]], picks[1]), lit(t[3], picks[2]))
        return s, "cmp"
    if k == "in":
        return "%s %s" % (pick(names[t[1]], picks[0]), " ".join(lit(v, picks[2]) for v in t[2])), "leaf"
    if k == "range":
        return "%s %s to %s" % (pick(names[t[1]], picks[0]), lit(t[2], 1), lit(t[3], 1)), "leaf"
    if k == "chain":
        return "%s %s %s %s %s" % (lit(t[2], 1), pick(CMP[t[3]], picks[1]), pick(names[t[1]], picks[0]), pick(CMP[t[4]], picks[1] + 1), lit(t[5], 1)), "cmp"
    if k == "re":
        return "%s =~ '%s'" % (pick(names[t[1]], picks[0]), t[2]), "cmp"
    p = t[-1] if isinstance(t[-1], int) else 0
    if k == "not":
        s, kind = render(t[1], full, alias)
        inner = "(%s)" % s if (full or PREC[kind] < PREC["not"]) else s
        op = pick(CONN["not"], p)
        return op + inner, "not"
    a, ka = render(t[1], full, alias)
    b, kb = render(t[2], full, alias)
    if full or PREC[ka] < PREC[k]:
        a = "(%s)" % a
    if full or PREC[kb] < PREC[k]:
        b = "(%s)" % b
    return "%s %s %s" % (a, pick(CONN[k], p), b), k


def malformed_text(t, how):
    good, _ = render(t, True, False)
    sub = t[1] if t[0] in ("not", "and", "or") else t   # a well-formed sub-expression to splice into the broken text
    a, _ = render(sub, True, False)
    return {
        "unbalanced-open": "(" + good,
        "unbalanced-close": good + ")",
        "dangling-binary": a + " and",
        "leading-binary": "or " + a,
        "adjacent-binary": a + " and or " + a,
        "empty-parens": a + " and ()",
        "lone-literal": "CA",
        "operator-without-operand": "mass >",
        "illegal-character": a + " and name $#@",
        # a keyword is a whole word: glued to further word characters it is no keyword any more
        "glued-keyword": "named CA",
        "glued-number": a + " and resid5",
        "glued-flag": "proteinx and " + a,
        "double-keyword": "name resname",
        "dangling-to": "resid 1 to",
        "empty": "",
    }[how]


def select_fresh(top, text, fn="select"):
    """run in a fresh thread: the parser recurses deeply per parenthesis level; a fresh stack makes that deterministic"""
    box = {}

    def work():
        try:
            with warnings.catch_warnings():
                warnings.simplefilter("ignore")
                box["r"] = getattr(top, fn)(text)
        except BaseException as e:  # noqa
            box["e"] = e
    th = threading.Thread(target=work)
    th.start()
    th.join()
    return box


def run_case(case):
    top, attr, _pool = topology()
    t, mode = case["tree"], case["mode"]
    viol, labels = [], ["mode:" + mode]
    edits = case.get("edit") if mode != "malformed" else None
    if edits:
        top = top.copy()
        for kind, k in edits:
            # selections made before each edit: whatever they leave behind in the topology must not outlive the edit
            select_fresh(top, WARM)
            select_fresh(top, render(t, False, False)[0])
            _edit(top, kind, k)
            labels.append("edit:" + kind)
        attr = _attrs(top)
    if mode == "malformed":
        text = malformed_text(t, case["how"])
        box = select_fresh(top, text)
        labels.append("malformed:" + case["how"])
        if "e" not in box:
            viol.append(("malformed-accepted/" + case["how"], "select(%r) returned %d atoms instead of raising" % (text, len(box["r"]))))
        return {"viol": viol, "labels": labels, "nontrivial": True}
    expected = [a["index"] for a in attr if evaluate(t, a)]
    # the documentation does not say whether the amide / alpha hydrogens and terminal atoms count as backbone or side chain:
    # atoms with those names are left out of the comparison when either keyword occurs
    skip = set()
    if _uses(t, ("backbone", "sidechain")):
        skip = {a["index"] for a in attr if a["protein"] and a["name"] in AMBIGUOUS_BB}
        expected = [i for i in expected if i not in skip]
    kinds = _connectives(t)
    texts = []
    if mode == "full":
        texts.append(("full", render(t, True, True)[0]))
    else:
        texts.append(("min-canonical", render(t, False, False)[0]))
        texts.append(("min-alias", render(t, False, True)[0]))
    results = {}
    for tag, text in texts:
        box = select_fresh(top, text)
        if "e" in box:
            e = box["e"]
            viol.append(("rejected-wellformed/%s/%s" % (tag, type(e).__name__), "select(%r): %s" % (text, str(e)[:150])))
            continue
        got_all = [int(x) for x in box["r"]]
        got = [i for i in got_all if i not in skip]
        results[tag] = got
        if got != sorted(got):
            viol.append(("not-increasing/" + tag, "select(%r) is not in increasing order" % text))
        if got != expected:
            viol.append(("wrong-selection/" + tag, "select(%r): %d atoms, meaning denotes %d (first difference at %s)" % (
                text, len(got), len(expected), sorted(set(got) ^ set(expected))[:4])))
        # the generated Python source evaluates to the same list
        bx = select_fresh(top, text, "select_expression")
        if "e" in bx:
            viol.append(("select_expression-raised/" + tag, "%r: %s" % (text, str(bx["e"])[:120])))
        else:
            try:
                ev = eval(bx["r"], {"topology": top, "re": re})
                if [int(x) for x in ev] != got_all:
                    viol.append(("select_expression-differs/" + tag, "eval(select_expression(%r)) differs from select()" % text))
            except Exception as e:
                viol.append(("select_expression-uncompilable/" + tag, "%r -> %r: %s" % (text, bx["r"][:120], str(e)[:100])))
    labels.append("depth:%d" % min(_depth(t), 4))
    if len(kinds) >= 2:
        labels.append("mixed-connectives")
    return {"viol": viol, "labels": labels, "nontrivial": bool(len(kinds) >= 2 or (kinds and _has_alias_cmp(t)))}


def _uses(t, keys):
    if t[0] == "bool":
        return t[1] in keys
    if t[0] == "not":
        return _uses(t[1], keys)
    if t[0] in ("and", "or"):
        return _uses(t[1], keys) or _uses(t[2], keys)
    return False


def _connectives(t):
    if t[0] == "not":
        return {"not"} | _connectives(t[1])
    if t[0] in ("and", "or"):
        return {t[0]} | _connectives(t[1]) | _connectives(t[2])
    return set()


def _has_alias_cmp(t):
    if t[0] == "cmp":
        return t[-1][1] % 2 == 1
    if t[0] == "not":
        return _has_alias_cmp(t[1])
    if t[0] in ("and", "or"):
        return _has_alias_cmp(t[1]) or _has_alias_cmp(t[2])
    return False


TECHNIQUE = "grammar-based property testing (Hypothesis recursive strategy + exhaustive small trees) against a parse-free tree evaluator; differential select vs eval(select_expression)"
LEVEL_TEXT = ("Expression trees are generated from the documented grammar, rendered to text (fully parenthesised / minimal parentheses, canonical / "
              "alias spellings) and the atoms selected are compared with a direct evaluation of the tree on attribute tables; all trees up to "
              "depth 1 (thorough: 2) over 8 leaves and every connective spelling are enumerated; malformed token streams must be rejected.")
LEVEL_NOTE = "Keyword meanings and the protein / water residue tables are pinned in the check from the documentation; pyparsing itself is part of the code under test."
