"""C15 - secondary-structure codes follow the DSSP rules applied to the backbone hydrogen bonds reported by kabsch_sander."""
import warnings

import numpy as np
from hypothesis import strategies as st

from vlib import oracle_hb, structs

ID = "C15"
RULE = ("case = designed backbone hydrogen-bond graph (helices of stride 3/4/5 with overlaps, antiparallel / parallel ladders with gaps of "
        "0-6 residues, isolated bridges, chain breaks, missing atoms) realised by synthetic coordinates, OR variant of a seed protein (bpti / 2EQQ / 1vii / lysozyme fragment of 6-60 residues): Gaussian noise 0-0.2 nm, unfolding "
        "stretch, deleted residues (chain breaks), missing backbone atoms, split into up to 3 chains (PDB chain identifiers absent, shared, distinct or repeating), an interleaved water residue, trailing "
        "non-protein residues, 1-4 frames, optionally asked again on the same object after a backbone atom was renamed in place and again after the name was restored; oracle = DSSP-2.2 rules (n-turns, minimal helices with H > G > I priority, bridges, ladders with "
        "bulge merging, E/B, turns, bends) applied to the hydrogen-bond relation returned by md.kabsch_sander for that frame and the CA "
        "coordinates; 'NA' exactly for residues lacking N/CA/C/O; simplified = fixed 8->3 image; moving the atoms of incomplete residues "
        "away changes no other code; shape (n_frames, n_residues); non-trivial = >= 2 distinct non-blank codes, or an 'NA' between coded residues")
QUICK = {"examples": 400, "shards": 12, "budget_s": 110}
THOROUGH = {"examples": 3000, "shards": 16, "budget_s": 1700}
ASSUMPTIONS = ["the oracle is a second reading of the published rules (Kabsch & Sander 1983 as implemented by DSSP 2.2); disagreements are "
               "triaged against the publication before being called defects",
               "bends whose CA angle is within 1e-4 rad of 70 degrees are not compared"]
WHERE = {}
SIMPLE = {"H": "H", "G": "H", "I": "H", "B": "E", "E": "E", "T": "C", "S": "C", " ": "C", "NA": "NA"}


@st.composite
def strategy(draw, tier="quick"):
    if draw(st.booleans()):
        # designed backbone hydrogen-bond graph realised by synthetic coordinates (helix overlaps, ladders with gaps around the
        # bulge thresholds, chain breaks, missing atoms): reaches rule branches that perturbed real proteins almost never do
        case = {"design": draw(structs.designed_pattern())}
        if draw(st.integers(0, 5)) == 0:
            case["rename_between"] = [draw(st.integers(0, 200)), draw(st.integers(0, 3))]
        # PDB chain identifiers are labels, not identity: several chains may share one letter (TER inside a chain letter)
        case["design"]["chain_labels"] = draw(st.sampled_from(structs.CHAIN_LABEL_MODES))
        return case
    case = {"p": draw(structs.variant_params(need_h=False, max_res=60 if tier == "quick" else 158))}
    if draw(st.integers(0, 3)) == 0:
        case["rename_between"] = [draw(st.integers(0, 200)), draw(st.integers(0, 3))]
    case["p"]["chain_labels"] = draw(st.sampled_from(structs.CHAIN_LABEL_MODES))
    return case


def run_case(case):
    viol, labels = [], ["seed:" + (case["p"]["seed_struct"] if "p" in case else "designed-pattern")]
    state = {"codes": set(), "na_inside": False, "chain": []}
    with warnings.catch_warnings():
        warnings.simplefilter("ignore")
        t = structs.build(case["p"]) if "p" in case else structs.build_designed(case["design"])
        _pp = case["p"] if "p" in case else case["design"]
        if t.topology.n_chains > 1:
            labels.append("chain-labels:%s" % (_pp.get("chain_labels") or "none"))
        _check(t, viol, labels, state, "")
        rb = case.get("rename_between")
        if rb and not viol:
            # the same Trajectory object, asked again after a backbone atom was renamed in place (the residue becomes incomplete),
            # and once more after the name was restored
            bb = oracle_hb.backbone_indices(t.topology)
            complete = [i for i, b in enumerate(bb) if min(b[:4]) >= 0]
            if complete:
                i = complete[rb[0] % len(complete)]
                atom = t.topology.atom(bb[i][rb[1] % 4])
                old = atom.name
                labels.append("renamed-in-place:" + old)
                try:
                    atom.name = old + "X"
                    _check(t, viol, labels, state, "after-rename/")
                finally:
                    atom.name = old
                if not viol:
                    _check(t, viol, labels, state, "after-restore/")
    for c in sorted(state["codes"]):
        labels.append("code:" + (c if c != " " else "blank"))
    if len(set(state["chain"])) > 1:
        labels.append("multi-chain")
    nonblank = {c for c in state["codes"] if c != " "}
    return {"viol": viol, "labels": labels, "nontrivial": bool(len(nonblank) >= 2 or state["na_inside"])}


def _check(t, viol, labels, state, tag):
    import mdtraj as md
    if True:
        nf, nres = t.n_frames, t.n_residues
        ks = md.kabsch_sander(t)
        full = md.compute_dssp(t, simplified=False)
        simp = md.compute_dssp(t, simplified=True)
        if full.shape != (nf, nres) or simp.shape != (nf, nres):
            viol.append((tag + "shape", "%s / %s for %d frames x %d residues" % (full.shape, simp.shape, nf, nres)))
            return
        bb = oracle_hb.backbone_indices(t.topology)
        skip = [min(b[:4]) < 0 for b in bb]
        chain = [b[5] for b in bb]
        state["chain"] = chain
        for f in range(nf):
            M = ks[f].tocoo()
            hb = {(int(c), int(r)) for r, c in zip(M.row, M.col)}      # matrix[acceptor, donor]
            ca = np.array([t.xyz[f][b[1]] if b[1] >= 0 else [0, 0, 0] for b in bb], dtype=np.float64)
            exp, bend_amb = oracle_hb.dssp_from_hbonds(hb, ca, chain, skip)
            for i in range(nres):
                got = full[f, i]
                if skip[i]:
                    if got != "NA":
                        viol.append((tag + "incomplete-residue-not-NA", "frame %d residue %d (%s) lacks a backbone atom but is coded %r" % (f, i, t.topology.residue(i), got)))
                        break
                    continue
                if got == "NA":
                    viol.append((tag + "complete-residue-NA", "frame %d residue %d (%s) has N, CA, C, O but is coded 'NA'" % (f, i, t.topology.residue(i))))
                    break
                state["codes"].add(got)
                if got != exp[i] and not bend_amb[i]:
                    lo, hi = max(0, i - 6), min(nres, i + 7)
                    viol.append((tag + "code-differs-from-rules", "frame %d residue %d: compute_dssp %r, DSSP rules on the kabsch_sander bonds %r; "
                                 "context got %r rules %r" % (f, i, got, exp[i], "".join(c if c != "NA" else "?" for c in full[f, lo:hi]),
                                                              "".join(exp[lo:hi]))))
                    break
                if simp[f, i] != SIMPLE[got]:
                    viol.append((tag + "simplified-image", "frame %d residue %d: full %r simplified %r" % (f, i, got, simp[f, i])))
                    break
            if viol:
                break
            coded = [i for i in range(nres) if not skip[i]]
            if coded and any(skip[i] for i in range(coded[0], coded[-1] + 1)):
                state["na_inside"] = True
        # incomplete residues never take part: moving their remaining atoms far away changes nothing else
        if not viol and any(skip) and any(not s for s in skip):
            x2 = t.xyz.copy()
            for i, r in enumerate(t.topology.residues):
                if skip[i]:
                    # (its C and O stay: they are not part of any pattern, but they orient the amide hydrogen of the next residue,
                    # which the documented hydrogen placement takes from the preceding C=O; that no hydrogen bond involves an
                    # incomplete residue is checked on the Kabsch-Sander matrix itself in C14)
                    x2[:, [a.index for a in r.atoms if a.name not in ("C", "O")]] += 50.0
            t2 = md.Trajectory(x2, t.topology)
            full2 = md.compute_dssp(t2, simplified=False)
            for i in range(nres):
                if not skip[i] and (full2[:, i] != full[:, i]).any():
                    viol.append((tag + "incomplete-residue-takes-part", "residue %d changes from %r to %r when the atoms of incomplete residues are moved away" % (
                        i, full[:, i].tolist(), full2[:, i].tolist())))
                    break
            if not tag:
                labels.append("has-incomplete-residue")


TECHNIQUE = "property-based testing (Hypothesis) over perturbed / edited protein structures against an independent implementation of the DSSP rules fed with md.kabsch_sander's bonds"
LEVEL_TEXT = ("Variants of four seed proteins (noise, unfolding, deleted residues, missing backbone atoms, several chains, interleaved non-protein "
              "residues, several frames) are coded by compute_dssp and by an independent rule implementation that takes the hydrogen-bond relation "
              "of md.kabsch_sander as input, as the property specifies; 'NA' handling, the simplified image, the output shape and the "
              "non-participation of incomplete residues are asserted.")
LEVEL_NOTE = "The oracle is necessarily another reading of the same published rules; its value is in inputs the stored structures never contain."
