"""C19 - incremental writing equals one-shot writing, ragged writes are refused cleanly, flushed frames survive a crash."""
import os
import signal
import warnings

import numpy as np
from hypothesis import strategies as st

from vlib import files

ID = "C19"
FMTS = ["h5", "nc", "dcd", "xtc", "trr", "mdcrd", "xyz", "lammpstrj", "gro", "pdb", "dtr"]
LIVE = ["h5", "nc", "dcd", "xtc"]
RULE = ("case = (streaming format, n frames, composition of n into consecutive write sizes, with/without cell and time, optional "
        "ragged write (other atom count / cell added or dropped / time added or dropped) after the k-th accepted write, optional "
        "crash point (SIGKILL or _exit in a forked writer after the j-th write/flush operation), h5 append mode); oracles: one-shot "
        "file of the same class (load-equal, and byte-identical when two one-shot files are byte-identical), exactly-the-accepted-"
        "frames after a refused write, at-least-the-flushed-and-only-correct frames after a kill; non-trivial = >=3 writes of "
        "unequal sizes, or a ragged write after >=1 accepted write, or a crash after >=2 flushes")
ENUM_SCOPE = ("every composition of n frames for n<=N (quick N=5, thorough N=9) x 11 formats x cell/time presence; every ragged "
              "kind after every prefix of a 3-write history; every crash point of every composition of n=4 (thorough 6) for the "
              "live formats (h5, h5-append, nc, dcd, xtc) with SIGKILL and os._exit")
RULE += ('; widened: shape-changing cells, an earlier file of the format written (and closed / left open) by the crash child first, an older longer file already at the output path')
QUICK = {"examples": 60, "shards": 12, "budget_s": 100}
THOROUGH = {"examples": 1500, "shards": 16, "budget_s": 1500}
ASSUMPTIONS = ["process kill only (SIGKILL / os._exit in a forked writer): power loss and fsync ordering are out of reach without a "
               "fault-injecting filesystem",
               "omitting `time` for XTC/TRR/DCD is not ragged (documented default) and times are then not compared"]

# which schema violations a format's first write fixes (DESIGN.md C19 'Definition')
RAGGED = {
    "h5": ["natoms", "dropcell", "addcell", "droptime", "addtime"],
    "nc": ["natoms", "dropcell", "addcell", "droptime", "addtime"],
    "dcd": ["natoms", "dropcell", "addcell"],
    "xtc": ["natoms", "dropcell", "addcell"],
    "trr": ["natoms", "dropcell", "addcell"],
    "mdcrd": ["natoms", "dropcell", "addcell"],
    "xyz": ["natoms"],
    "lammpstrj": ["natoms"],
    "gro": ["natoms"],
    "pdb": ["natoms"],
    "dtr": ["natoms"],
}

def _xtc_unflushed_big_write(c):
    cr = c.get("crash")
    return bool(c["fmt"] == "xtc" and cr and cr["at"] % 2 == 1 and c["comp"][min((cr["at"] - 1) // 2, len(c["comp"]) - 1)] > 6)


WHERE = {
    # XTC: a writer killed right after a write() of more bytes than stdio buffers (before its flush) leaves a truncated last frame;
    # md.load then raises instead of returning the complete frames (reader in xtc.pyx: Cython, cannot be rebuilt here)
    "C19-xtc-truncated-tail-unloadable": lambda c, k: _xtc_unflushed_big_write(c),
}


def _open_keys():
    from vlib.runner import load_findings
    return [f["key"] for f in load_findings(ID) if f.get("status") == "open"]


def compositions(n):
    if n == 0:
        yield []
        return
    for first in range(1, n + 1):
        for rest in compositions(n - first):
            yield [first] + rest


def _norm(fmt, cell, time):
    f = files.FORMATS[fmt]
    if f.get("need_cell"):
        cell = True
    if not f["cell"]:
        cell = False
    if fmt == "dtr":
        time = True
    if not f["time"]:
        time = False
    return cell, time


@st.composite
def strategy(draw, tier="quick"):
    fmt = draw(st.sampled_from(FMTS + LIVE))
    n = draw(st.integers(1, 40 if tier == "thorough" else 14))
    comp = []
    left = n
    while left:
        k = draw(st.integers(1, min(left, 6)))
        comp.append(k)
        left -= k
    if fmt != "pdb" and draw(st.integers(0, 11)) == 0:
        # long output: write calls that are larger than, or add up across, the sizes an internal buffer / chunk is likely to
        # have (256, 512, 1000 frames)
        comp = draw(st.sampled_from([[513], [300, 300], [511, 2, 100], [256, 256, 1], [1, 512], [1000, 30], [100] * 6]))
    if fmt == "pdb":
        comp = [1] * n
    cell, time = _norm(fmt, draw(st.booleans()), draw(st.booleans()))
    case = {"fmt": fmt, "na": draw(st.sampled_from([3, 9, 10, 12])), "comp": comp, "cell": cell, "time": time,
            "tric": draw(st.booleans()) and files.FORMATS[fmt].get("tric", False), "seed": draw(st.integers(0, 3))}
    if case["tric"] and case["cell"]:
        case["cellmode"] = draw(st.sampled_from(["tric", "tric", "ortho-then-tric", "tric-then-ortho"]))
    if draw(st.integers(0, 3)) == 0:
        case["preexisting"] = True       # the output path already holds an older, longer file of the format
    mode = draw(st.sampled_from(["plain", "plain", "ragged", "crash"]))
    if mode == "ragged" and RAGGED[fmt]:
        kinds = [k for k in RAGGED[fmt] if _ragged_applicable(k, cell, time)]
        if kinds:
            case["ragged"] = {"after": draw(st.integers(1, len(comp))), "kind": draw(st.sampled_from(kinds)),
                              "then": draw(st.sampled_from([None, "repeat", "regular"]))}
            if fmt == "h5" and draw(st.booleans()):
                case["ragged"]["reopen_append"] = True   # the ragged write is the first one after re-opening with mode='a'
    elif mode == "crash" and fmt in LIVE:
        case["crash"] = {"at": draw(st.integers(1, 2 * len(comp))), "how": draw(st.sampled_from(["kill", "_exit"]))}
        early = draw(st.sampled_from([None, None, "closed", "open"]))
        if early:
            case["earlier"] = early      # the writing process produced another file of the format first (an earlier run stage)
        if "C19-xtc-truncated-tail-unloadable" in _open_keys() and _xtc_unflushed_big_write(case):
            case["crash"]["at"] += 1          # excluded by construction: the kill comes after the flush of that write instead
            case["excluded"] = ["excluded:C19-xtc-truncated-tail-unloadable"]
        if fmt == "h5" and draw(st.booleans()) and len(comp) > 1:
            case["append_after"] = draw(st.integers(1, len(comp) - 1))
    elif fmt == "h5" and len(comp) > 1 and draw(st.booleans()):
        case["append_after"] = draw(st.integers(1, len(comp) - 1))
    return case


def _ragged_applicable(kind, cell, time):
    return {"natoms": True, "dropcell": cell, "addcell": not cell, "droptime": time, "addtime": not time}[kind]


def enumerate_cases(tier):
    N = 5 if tier == "quick" else 9
    for fmt in FMTS:
        for n in range(1, N + 1):
            for comp in compositions(n):
                if fmt == "pdb" and any(c != 1 for c in comp):
                    continue
                seen = set()
                for cell in (True, False):
                    for time in (True, False):
                        c, t = _norm(fmt, cell, time)
                        if (c, t) in seen:
                            continue
                        seen.add((c, t))
                        yield {"fmt": fmt, "na": 10, "comp": comp, "cell": c, "time": t, "tric": False, "seed": 0}
                        if c and n >= 2 and files.FORMATS[fmt].get("tric", False):
                            # the same compositions with a cell that is rectangular in the first half and skewed in the second
                            yield {"fmt": fmt, "na": 10, "comp": comp, "cell": c, "time": t, "tric": True, "seed": 0,
                                   "cellmode": "ortho-then-tric"}
    for fmt in FMTS:
        for kind in RAGGED[fmt]:
            for cell in (True, False):
                for time in (True, False):
                    c, t = _norm(fmt, cell, time)
                    if (c, t) != (cell, time) or not _ragged_applicable(kind, c, t):
                        continue
                    for after in (1, 2, 3):
                        yield {"fmt": fmt, "na": 10, "comp": [2, 1, 3], "cell": c, "time": t, "tric": False, "seed": 0,
                               "ragged": {"after": after, "kind": kind}}
                        if after < 3:
                            for then in ("repeat", "regular"):
                                yield {"fmt": fmt, "na": 10, "comp": [2, 1, 3], "cell": c, "time": t, "tric": False, "seed": 0,
                                       "ragged": {"after": after, "kind": kind, "then": then}}
                        if fmt == "h5":
                            yield {"fmt": fmt, "na": 10, "comp": [2, 1, 3], "cell": c, "time": t, "tric": False, "seed": 0,
                                   "ragged": {"after": after, "kind": kind, "reopen_append": True}}
    n = 4 if tier == "quick" else 6
    for fmt in LIVE + ["h5a"]:
        for comp in compositions(n):
            for at in range(1, 2 * len(comp) + 1):
                for how in ("kill", "_exit"):
                    c = {"fmt": fmt.rstrip("a") if fmt == "h5a" else fmt, "na": 10, "comp": comp, "cell": True, "time": True,
                         "tric": False, "seed": 0, "crash": {"at": at, "how": how}}
                    if fmt == "h5a":
                        if len(comp) < 2:
                            continue
                        c["append_after"] = 1
                    yield c
                    if how == "kill" and fmt != "h5a":
                        # the same crash point in a process that wrote another file of the format before (left open / closed)
                        yield dict(c, earlier="closed" if at % 2 else "open")
                        yield dict(c, preexisting=True)


# ------------------------------------------------------------------------------------------------ writing

def _write(fmt, fh, tr, lo, hi, cell, time, natoms=None):
    x = tr.xyz[lo:hi] if natoms is None else np.ascontiguousarray(tr.xyz[lo:hi][:, :natoms])
    L = tr.unitcell_lengths[lo:hi] if cell else None
    A = tr.unitcell_angles[lo:hi] if cell else None
    V = tr.unitcell_vectors[lo:hi] if cell else None
    T = tr.time[lo:hi] if time else None
    top = tr.topology if natoms is None else tr.topology.subset(range(natoms))
    if fmt == "h5":
        fh.write(x, time=T, cell_lengths=L, cell_angles=A)
    elif fmt == "nc":
        fh.write(x * 10, time=T, cell_lengths=None if L is None else L * 10, cell_angles=A)
    elif fmt in ("xtc", "trr"):
        fh.write(x, time=T, step=np.arange(lo, hi, dtype=np.int32), box=V)
    elif fmt == "dcd":
        fh.write(x * 10, cell_lengths=None if L is None else L * 10, cell_angles=A)
    elif fmt == "mdcrd":
        fh.write(x * 10, None if L is None else L * 10)
    elif fmt == "lammpstrj":
        fh.write(x * 10, None if L is None else L * 10, A)
    elif fmt == "xyz":
        fh.write(x * 10)
    elif fmt == "dtr":
        fh.write(x * 10, cell_lengths=None if L is None else L * 10, cell_angles=A, times=T)
    elif fmt == "gro":
        fh.write(x, top, time=T, unitcell_vectors=V)
    elif fmt == "pdb":
        for i in range(lo, hi):
            fh.write(tr.xyz[i] * 10, top, modelIndex=i, unitcell_lengths=None if L is None else tr.unitcell_lengths[i] * 10,
                     unitcell_angles=None if A is None else tr.unitcell_angles[i])
    else:
        raise ValueError(fmt)


def _bytes_deterministic(fmt, time):
    """formats whose bytes are a function of the data alone: no date / host stamp (pdb, xyz, nc, dcd, h5, dtr have one), and
    no per-call default numbering (xtc / trr number time per call when it is omitted; lammpstrj numbers TIMESTEP per call)"""
    return fmt in ("mdcrd", "gro") or (fmt in ("xtc", "trr") and time)


def _open_w(fn, fmt, mode="w"):
    import mdtraj as md
    return md.open(fn, mode)


def _preexist(fn, case, cell, time):
    """an older, longer output file already sits at the path (a re-run into the same directory)"""
    fmt, n = case["fmt"], sum(case["comp"])
    old = files.file_traj(2 * n + 3, case["na"], (case.get("cellmode") or "tric") if case.get("tric") else "ortho-vary", case["seed"] + 7, time="offset")
    with _open_w(fn, fmt) as fh:
        _write(fmt, fh, old, 0, len(old), cell, time)


def _load(fn, fmt, tr, na=None):
    top = tr.topology if na is None else tr.topology.subset(range(na))
    return files.load(fn, fmt, top)


def _bounds(comp):
    out, lo = [], 0
    for c in comp:
        out.append((lo, lo + c))
        lo += c
    return out


def _expected(tr, hi, cell, time, fmt):
    """what loading a file with the first hi frames must give (compared against the one-shot file, not against tr)"""
    return hi


def run_case(case):
    fmt, comp, cell, time = case["fmt"], case["comp"], case["cell"], case["time"]
    n = sum(comp)
    viol, labels = [], ["fmt:" + fmt] + list(case.get("excluded", []))
    tr = files.file_traj(n, case["na"], (case.get("cellmode") or "tric") if case.get("tric") else "ortho-vary", case["seed"], time="offset")
    what = ["xyz"] + (["cell"] if cell else []) + (["time"] if (time and files.FORMATS[fmt]["time"]) else [])
    with warnings.catch_warnings(), files.scratch() as d:
        warnings.simplefilter("ignore")
        if "crash" in case:
            return _crash_case(case, tr, d, what, labels)
        ext = fmt
        inc = os.path.join(d, "inc." + ext)
        rag = case.get("ragged")
        accepted = 0
        if case.get("preexisting"):
            _preexist(inc, case, cell, time)
            labels.append("over-an-older-longer-file")
        fh = _open_w(inc, fmt)
        raised = None
        try:
            for k, (lo, hi) in enumerate(_bounds(comp)):
                if case.get("append_after") == k and fmt == "h5":
                    fh.close()
                    fh = _open_w(inc, fmt, "a")
                    labels.append("h5-append")
                _write(fmt, fh, tr, lo, hi, cell, time)
                accepted = hi
                if rag and rag["after"] == k + 1:
                    kind = rag["kind"]
                    if rag.get("reopen_append") and fmt == "h5":
                        fh.close()
                        fh = _open_w(inc, fmt, "a")
                        labels.append("ragged-after-reopen-append")
                    lo2, hi2 = hi, min(n, hi + 2) if hi < n else hi
                    if hi2 == lo2:  # ragged attempt after the last frame: re-use the last frames as payload
                        lo2, hi2 = max(0, n - 2), n
                    try:
                        if kind == "natoms":
                            _write(fmt, fh, tr, lo2, hi2, cell, time, natoms=case["na"] - 1)
                        elif kind == "dropcell":
                            _write(fmt, fh, tr, lo2, hi2, False, time)
                        elif kind == "addcell":
                            _write(fmt, fh, tr, lo2, hi2, True, time)
                        elif kind == "droptime":
                            _write(fmt, fh, tr, lo2, hi2, cell, False)
                        elif kind == "addtime":
                            _write(fmt, fh, tr, lo2, hi2, cell, True)
                    except Exception as e:  # a refusal is what the property demands
                        raised = type(e).__name__
                    labels.append("ragged:" + kind)
                    then = rag.get("then")
                    if raised is not None and then == "repeat" and kind == "natoms":
                        # the refusal must not change the writer: the same wrong write is refused again
                        try:
                            _write(fmt, fh, tr, lo2, hi2, cell, time, natoms=case["na"] - 1)
                            viol.append(("%s/ragged-%s/accepted-on-repeat" % (fmt, kind), "the same ragged write, refused once, was accepted the second time"))
                        except Exception:
                            pass
                        labels.append("ragged-repeated")
                    if raised is not None and then in ("regular", "repeat") and hi < n:
                        # ... and a regular write with the schema of the file is still accepted afterwards
                        hi3 = min(n, hi + 2)
                        try:
                            _write(fmt, fh, tr, hi, hi3, cell, time)
                            accepted = hi3
                            labels.append("regular-write-after-refusal")
                        except Exception as e:
                            viol.append(("%s/ragged-%s/regular-write-refused-afterwards" % (fmt, kind), "%s: %s" % (type(e).__name__, str(e)[:160])))
                    break
        finally:
            fh.close()
        if rag:
            if raised is None:
                viol.append(("%s/ragged-%s/accepted" % (fmt, rag["kind"]), "write with %s did not raise" % rag["kind"]))
            ref = os.path.join(d, "ref." + ext)
            with _open_w(ref, fmt) as fr:
                _write(fmt, fr, tr, 0, accepted, cell, time)
            try:
                got = _load(inc, fmt, tr)
            except Exception as e:
                viol.append(("%s/ragged-%s/file-unloadable" % (fmt, rag["kind"]), "%s: %s" % (type(e).__name__, str(e)[:200])))
                got = None
            if got is not None:
                exp = _load(ref, fmt, tr)
                dd = files.traj_diff(got, exp, what=what)
                if dd:
                    viol.append(("%s/ragged-%s/frames-after-refusal" % (fmt, rag["kind"]),
                                 "file holds %d frames, %d were accepted (%s)" % (len(got), accepted, dd)))
            nontrivial = True
        else:
            ref = os.path.join(d, "ref." + ext)
            with _open_w(ref, fmt) as fr:
                _write(fmt, fr, tr, 0, n, cell, time)
            ref2 = os.path.join(d, "ref2." + ext)
            with _open_w(ref2, fmt) as fr:
                _write(fmt, fr, tr, 0, n, cell, time)
            got, exp = _load(inc, fmt, tr), _load(ref, fmt, tr)
            dd = files.traj_diff(got, exp, what=what)
            if dd:
                viol.append(("%s/incremental!=oneshot" % fmt, "%s (composition %s)" % (dd, comp)))
            elif _bytes_deterministic(fmt, time) and files.tree_digest(ref) == files.tree_digest(ref2):
                labels.append("bytes-compared")
                if files.tree_digest(inc) != files.tree_digest(ref):
                    viol.append(("%s/incremental-bytes!=oneshot-bytes" % fmt, "composition %s" % comp))
            nontrivial = len(comp) >= 3 and len(set(comp)) > 1
    labels.append("cell" if cell else "nocell")
    labels.append("time" if time else "notime")
    return {"viol": viol, "labels": labels, "nontrivial": nontrivial}


def _crash_case(case, tr, d, what, labels):
    """fork a writer; it reports every completed flush through a pipe and is killed after operation number `at`
    (operations: write_1, flush_1, write_2, flush_2, ...).  The parent then loads whatever is on disk."""
    fmt, comp, cell, time = case["fmt"], case["comp"], case["cell"], case["time"]
    at, how = case["crash"]["at"], case["crash"]["how"]
    viol = []
    fn = os.path.join(d, "live." + fmt)
    efn = os.path.join(d, "earlier." + fmt)
    if case.get("preexisting"):
        _preexist(fn, case, cell, time)
        labels.append("over-an-older-longer-file")
    r, w = os.pipe()
    pid = os.fork()
    if pid == 0:
        code = 7
        try:
            os.close(r)
            if case.get("earlier"):
                fe = _open_w(efn, fmt)
                _write(fmt, fe, tr, 0, sum(comp), cell, time)
                if hasattr(fe, "flush"):
                    fe.flush()
                if case["earlier"] == "closed":
                    fe.close()
            fh = _open_w(fn, fmt)
            opn = 0
            for k, (lo, hi) in enumerate(_bounds(comp)):
                if case.get("append_after") == k:
                    fh.close()
                    fh = _open_w(fn, fmt, "a")
                _write(fmt, fh, tr, lo, hi, cell, time)
                opn += 1
                if fmt == "dcd":
                    os.write(w, b"%d\n" % hi)   # DCD has no flush(): durable once write() has returned
                if opn == at:
                    break
                if hasattr(fh, "flush"):
                    fh.flush()
                os.write(w, b"%d\n" % hi)
                opn += 1
                if opn == at:
                    break
            code = 0
            if how == "kill":
                os.kill(os.getpid(), signal.SIGKILL)
        except BaseException as e:  # noqa
            try:
                os.write(w, b"ERR %s\n" % repr(e)[:200].encode())
            except Exception:
                pass
        finally:
            os._exit(code)
    os.close(w)
    _, status = os.waitpid(pid, 0)
    data = b""
    while True:
        blk = os.read(r, 65536)
        if not blk:
            break
        data += blk
    os.close(r)
    lines = data.decode(errors="replace").split("\n")
    err = [ln for ln in lines if ln.startswith("ERR")]
    if err:
        return {"viol": [("%s/crash-writer-error" % fmt, err[0])], "labels": labels, "nontrivial": False}
    nums = [int(ln) for ln in lines if ln.strip().isdigit()]
    flushed = nums[-1] if nums else 0
    n = sum(comp)
    # reference: a cleanly written file of all frames
    ref = os.path.join(d, "ref." + fmt)
    with _open_w(ref, fmt) as fr:
        _write(fmt, fr, tr, 0, n, cell, time)
    exp = _load(ref, fmt, tr)
    try:
        got = _load(fn, fmt, tr)
    except Exception as e:
        if flushed == 0 and not os.path.exists(fn):
            got = None
        elif flushed == 0:
            got = None  # nothing was promised yet
        else:
            viol.append(("%s/crash/unloadable" % fmt, "%d frames flushed before the kill; load fails: %s %s" % (
                flushed, type(e).__name__, str(e)[:160])))
            got = None
    if got is not None:
        if len(got) < flushed:
            viol.append(("%s/crash/frames-lost" % fmt, "%d frames flushed before the kill, file loads %d" % (flushed, len(got))))
        elif len(got) > n:
            viol.append(("%s/crash/extra-frames" % fmt, "file loads %d frames, only %d were ever written" % (len(got), n)))
        elif len(got) > 0:
            dd = files.traj_diff(got, exp[:len(got)], what=what)
            if dd:
                viol.append(("%s/crash/wrong-frames" % fmt, "%d flushed, %d loaded: %s" % (flushed, len(got), dd)))
    if case.get("earlier"):
        # the earlier file was flushed (and possibly closed) before the live file was even opened: all its frames are due
        labels.append("earlier-file:" + case["earlier"])
        try:
            dd = files.traj_diff(_load(efn, fmt, tr), exp, what=what)
        except Exception as e:
            dd = "load fails: %s %s" % (type(e).__name__, str(e)[:160])
        if dd:
            viol.append(("%s/crash/earlier-file" % fmt, "the file written, flushed%s before the live one: %s" % (
                " and closed" if case["earlier"] == "closed" else "", dd)))
    labels += ["crash:" + how, "flushed:%d" % min(flushed, 3)]
    if "append_after" in case:
        labels.append("h5-append")
    return {"viol": viol, "labels": labels, "nontrivial": flushed >= 2 and len(nums) >= 2}


TECHNIQUE = "exhaustive enumeration of write compositions / ragged points / crash points + Hypothesis-generated longer histories; fault injection by process kill"
LEVEL_TEXT = ("Every ordered partition of up to 5 (thorough 9) frames into write calls is written through each of 11 streaming "
              "writers and compared with the one-shot file (load-equal; byte-identical where the format is deterministic); every "
              "schema-violating write is injected after every prefix and the file must hold exactly the accepted frames; for the "
              "live formats a forked writer is killed (SIGKILL / _exit) after every write/flush operation and the file must load with "
              "at least the flushed frames and only correct ones.")
LEVEL_NOTE = ("Fault model is abrupt process termination, not power loss. The reference is a clean one-shot file written by the "
              "same class; frame values themselves are C01's subject.")
