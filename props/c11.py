"""C11 - re-imaging moves atoms only by lattice vectors and makes molecules whole."""
import warnings

import numpy as np
from hypothesis import strategies as st

from vlib import gen, oracle

ID = "C11"
RULE = ("case = (periodic system of 1-6 molecules: chains, branched trees, rings, single ions, 1-7 atoms each, extent < 0.4 of the smallest "
        "cell width, atom indices inside a molecule either parent-before-child or arbitrarily permuted, every atom (or every molecule) "
        "moved by a random lattice vector of up to +-2 cells, 1-3 frames, cell of every C05 kind >= 6 nm, per-frame varying), operation in "
        "{make_molecules_whole, image_molecules(make_whole T/F, anchors guessed/explicit)} x inplace; oracle: per-atom displacement is an "
        "integer lattice vector (after removing one common translation per frame for image_molecules), every bonded pair ends at its "
        "minimum-image separation, non-anchor molecules move as units, cell/time untouched, original byte-identical when inplace=False; "
        "non-trivial = >=1 bond initially split across images and (non-orthorhombic cell or >=2 molecules)")
QUICK = {"examples": 500, "shards": 12, "budget_s": 100}
THOROUGH = {"examples": 4000, "shards": 16, "budget_s": 1500}
ASSUMPTIONS = ["molecules are shorter than 0.4 of the smallest cell width (the property excludes molecules longer than half the cell)",
               "lattice test: fractional residual of the displacement < 1e-4 + float32 rounding of the coordinates"]
WHERE = {}


@st.composite
def strategy(draw, tier="quick"):
    nf = draw(st.integers(1, 3))
    cells = draw(gen.cells(nf, allow_none=False, lmin=6.0, lmax=20.0, kinds=gen.KINDS_GEOMETRY))
    mols = []
    for _ in range(draw(st.integers(1, 6))):
        kind = draw(st.sampled_from(["chain", "chain", "tree", "ring", "ion"]))
        n = 1 if kind == "ion" else draw(st.integers(2, 7))
        if kind == "ring":
            n = max(n, 3)
        mols.append({"kind": kind, "n": n, "order": draw(st.sampled_from(["parent-first", "parent-first", "permuted"])),
                     "seed": draw(st.integers(0, 2 ** 31))})
    anchors = draw(st.sampled_from(["guess", "explicit"]))
    if anchors == "guess":
        # the documented heuristic takes molecules larger than the 10th-percentile molecule as anchors: it needs a
        # solvent-like majority of small molecules, so add ions until the large ones stand out
        if not any(m["n"] > 1 for m in mols):
            anchors = "explicit"
        else:
            while sum(1 for m in mols if m["n"] == 1) < 9 * sum(1 for m in mols if m["n"] > 1) + 2:
                mols.append({"kind": "ion", "n": 1, "order": "parent-first", "seed": len(mols)})
    return {"nf": nf, "cells": cells, "mols": mols, "scatter": draw(st.sampled_from(["atoms", "atoms", "molecules"])),
            "op": draw(st.sampled_from(["whole", "whole", "image", "image", "image-nowhole"])),
            "inplace": draw(st.booleans()), "anchors": anchors,
            "bond_order": draw(st.sampled_from(["as-built", "shuffled"])), "seed": draw(st.integers(0, 2 ** 31)),
            "layout": draw(st.sampled_from(["blocks", "blocks", "interleaved", "by-position"])),
            # residue names: neutral ones, or a mixture with water / ion / amino-acid names (a molecule may then be bonded across
            # residues of different kinds, e.g. a metal ion with its coordinated waters)
            "resnames": draw(st.sampled_from(["plain", "plain", "mixed"])),
            "late_bond": draw(st.integers(0, 4)) == 0,
            # the coordinate array of the trajectory is a view into a larger buffer (as after md.load of some formats, or
            # Trajectory(buf[1:], ...)), not an array that owns its memory
            "xyz_view": draw(st.integers(0, 3)) == 0,
            # the bonds handed over explicitly, in a valid placement order (every bond's first atom already placed) that starts
            # each molecule at an arbitrary atom - not necessarily its lowest index
            "explicit_bonds": draw(st.integers(0, 3)) == 0}


def build(case):
    """-> (traj scattered, bonds [(i,j)], bond lengths, molecule atom lists, unscattered coordinates)"""
    import mdtraj as md
    from mdtraj.core import element as elem
    nf = case["nf"]
    Hs = gen.cell_matrices(case["cells"])
    wmin = min(oracle.widths(H).min() for H in Hs)
    rng = np.random.Generator(np.random.PCG64(case["seed"]))
    top = md.Topology()
    ch = top.add_chain()
    residues = []
    coords = []      # per molecule: (n,3) local coordinates (same in every frame, plus small per-frame noise)
    bonds, mol_atoms = [], []
    base = 0
    for m in case["mols"]:
        r = np.random.Generator(np.random.PCG64(m["seed"]))
        n = m["n"]
        parent = [-1] * n
        x = np.zeros((n, 3))
        for i in range(1, n):
            p = i - 1 if m["kind"] in ("chain", "ring") else int(r.integers(0, i))
            parent[i] = p
            u = r.normal(size=3)
            x[i] = x[p] + 0.14 * u / np.linalg.norm(u)
        mb = [(parent[i], i) for i in range(1, n)]
        if m["kind"] == "ring":
            mb.append((n - 1, 0))
            ang = np.linspace(0, 2 * np.pi, n, endpoint=False)
            x = np.stack([np.cos(ang), np.sin(ang), 0 * ang], 1) * 0.14 / (2 * np.sin(np.pi / n))
            x = x @ oracle.random_rotation(r).T
        ext = max(1e-9, np.linalg.norm(x[:, None] - x[None], axis=2).max())
        if ext > 0.4 * wmin:
            x *= 0.4 * wmin / ext
        perm = np.arange(n)
        if m["order"] == "permuted":
            perm = r.permutation(n)      # new index of old atom k is perm[k]
        inv = np.argsort(perm)
        x = x[inv]
        mb = [(int(perm[a]), int(perm[b])) for a, b in mb]
        residues.append(None)
        bonds += [(base + a, base + b) for a, b in mb]
        mol_atoms.append(list(range(base, base + n)))
        coords.append(x)
        base += n
    # global numbering of the atoms: molecule after molecule, or molecules interleaved (solvent written "all O, then all H";
    # a ligand listed in pieces) - a molecule's atoms then are no contiguous index block
    slots = [(mi, k) for mi, idx in enumerate(mol_atoms) for k in range(len(idx))]
    layout = case.get("layout", "blocks")
    if layout == "by-position" and not bonds:
        layout = "interleaved"     # one multi-atom residue without any bond: find_molecules refuses such a topology, by documentation
    if layout == "interleaved":
        slots = [slots[i] for i in rng.permutation(len(slots))]
    elif layout == "by-position":
        slots.sort(key=lambda s_: (s_[1], s_[0]))
    new_index = {}
    # mdtraj iterates atoms residue by residue and relies on that being the index order, so a residue is always one
    # contiguous run of atoms: one residue per molecule (blocks), per atom (interleaved) or one for everything (by-position)
    single = top.add_residue("SYS", ch) if layout == "by-position" else None
    nrng = np.random.Generator(np.random.PCG64(case["seed"] + 99))      # (its own stream: the coordinates do not depend on the names)
    mixed = case.get("resnames") == "mixed"

    def rname(default):
        return str(nrng.choice(["HOH", "WAT", "NA", "ALA", "GLY", "LIG", default])) if mixed else default
    for new, (mi, k) in enumerate(slots):
        n = len(mol_atoms[mi])
        if layout == "blocks":
            if residues[mi] is None:
                residues[mi] = top.add_residue(rname("MOL" if n > 1 else "ION"), ch)
            res = residues[mi]
        else:
            res = single or top.add_residue(rname("ATM"), ch)
        top.add_atom("C%d" % k, elem.carbon if n > 1 else elem.sodium, res)
        new_index[mol_atoms[mi][k]] = new
    renum = np.array([new_index[i] for i in range(base)])
    bonds = [(int(renum[a]), int(renum[b])) for a, b in bonds]
    block_atoms = mol_atoms
    mol_atoms = [[int(renum[i]) for i in idx] for idx in block_atoms]
    if case["bond_order"] == "shuffled":
        order = rng.permutation(len(bonds))
        bonds = [bonds[k] if rng.random() < 0.5 else (bonds[k][1], bonds[k][0]) for k in order]
    atoms = [top.atom(i) for i in range(top.n_atoms)]
    assert [a.index for a in top.atoms] == list(range(top.n_atoms))
    held = None
    if case.get("late_bond") and bonds:
        held = bonds[-1]          # this bond is added to the topology only after a first re-imaging call (see run_case)
    for a, b in bonds:
        if (a, b) != held:
            top.add_bond(atoms[a], atoms[b])
    case["_held"] = held
    n_atoms = base
    whole = np.zeros((nf, n_atoms, 3))
    scat = np.zeros((nf, n_atoms, 3))
    split = False
    for f in range(nf):
        H = Hs[f]
        for mi, idx in enumerate(mol_atoms):
            centre = rng.uniform(0, 1, 3) @ H
            xm = coords[mi] + centre + rng.normal(0, 0.003, coords[mi].shape)
            whole[f, idx] = xm
            if case["scatter"] == "atoms":
                sh = rng.integers(-2, 3, (len(idx), 3))
            else:
                sh = np.tile(rng.integers(-2, 3, (1, 3)), (len(idx), 1))
            scat[f, idx] = xm + sh @ H
            if len(idx) > 1 and (sh != sh[0]).any():
                split = True
    traj = gen.make_traj(scat.astype(np.float32), case["cells"], top=top, time=np.arange(nf) * 1.5)
    return traj, bonds, mol_atoms, split


def run_case(case):
    viol, labels = [], ["op:" + case["op"], "scatter:" + case["scatter"]]
    with warnings.catch_warnings():
        warnings.simplefilter("ignore")
        traj, bonds, mol_atoms, split = build(case)
        if case.get("xyz_view"):
            buf = np.concatenate([np.zeros((1,) + traj.xyz.shape[1:], dtype=np.float32), traj.xyz])
            traj.xyz = buf[1:]
            if traj.xyz.base is not None:
                labels.append("xyz-is-a-view")
        nf = traj.n_frames
        before = traj.xyz.copy()
        cellL, cellA, time0 = traj.unitcell_lengths.copy(), traj.unitcell_angles.copy(), traj.time.copy()
        Hs = [gen.box_vectors(traj.unitcell_lengths[f], traj.unitcell_angles[f]) for f in range(nf)]
        op, inplace = case["op"], case["inplace"]
        anchors = None
        held = case.pop("_held", None)
        if held is not None:
            # the topology is edited between two calls: a first call on the topology without one bond (whatever it computes and
            # caches), then the bond is added to the very same Topology object; the checked call must see the edited topology
            try:
                if any(True for _ in traj.topology.bonds):
                    (traj.make_molecules_whole(inplace=False) if op == "whole" else traj.image_molecules(inplace=False, make_whole=(op == "image")))
            except Exception:
                labels.append("first-call-raised")
            traj.topology.add_bond(traj.topology.atom(held[0]), traj.topology.atom(held[1]))
            labels.append("bond-added-between-calls")
        mols_sets = traj.topology.find_molecules()
        if op.startswith("image"):
            if case["anchors"] == "explicit":
                anchors = [max(mols_sets, key=len)]
            else:
                anchors = traj.topology.guess_anchor_molecules()
        skw = {}
        if case.get("explicit_bonds") and bonds and op != "image-nowhole":
            rng_b = np.random.Generator(np.random.PCG64(case["seed"] + 31))
            adj = {}
            for a_, b_ in bonds:
                adj.setdefault(a_, []).append(b_)
                adj.setdefault(b_, []).append(a_)
            order, seen = [], set()
            for idx in mol_atoms:
                members = [i_ for i_ in idx if i_ in adj]
                if not members:
                    continue
                root = members[int(rng_b.integers(0, len(members)))]
                seen.add(root)
                queue = [root]
                while queue:
                    u = queue.pop(0)
                    for v in adj[u]:
                        if v not in seen:
                            seen.add(v)
                            order.append((u, v))
                            queue.append(v)
            skw["sorted_bonds"] = np.array(order, dtype=np.int32).reshape(-1, 2)
            labels.append("explicit-sorted-bonds")
        if op == "whole":
            out = traj.make_molecules_whole(inplace=inplace, **skw)
        else:
            kw = dict(skw)
            if case["anchors"] == "explicit":
                kw["anchor_molecules"] = anchors
            out = traj.image_molecules(inplace=inplace, make_whole=(op == "image"), **kw)
        if inplace:
            if out is not traj:
                viol.append((op + "/inplace-identity", "inplace=True did not return self"))
        else:
            if out is traj:
                viol.append((op + "/copy-identity", "inplace=False returned self"))
            if not np.array_equal(traj.xyz, before) or not np.array_equal(traj.unitcell_lengths, cellL) or \
                    not np.array_equal(traj.unitcell_angles, cellA) or not np.array_equal(traj.time, time0):
                viol.append((op + "/original-modified", "inplace=False changed the original trajectory"))
        if not np.array_equal(out.unitcell_lengths, cellL) or not np.array_equal(out.unitcell_angles, cellA) or \
                not np.array_equal(out.time, time0):
            viol.append((op + "/cell-or-time-changed", "unit cell or time differ after the operation"))
        after = out.xyz.astype(np.float64)
        b64 = before.astype(np.float64)
        xmax = float(max(np.abs(after).max(), np.abs(b64).max()))
        anchor_atoms = set()
        if anchors:
            for m in anchors:
                anchor_atoms |= {a.index for a in m}
        for f in range(nf):
            H = Hs[f]
            wmin = oracle.widths(H).min()
            ftol = 1e-4 + 16 * oracle.EPS32 * (xmax + 1) / wmin
            delta = after[f] - b64[f]
            if op.startswith("image"):
                delta = delta - delta[0]     # one common translation per frame
            res = oracle.lattice_residual(delta, H)
            if (~(res <= ftol)).any():
                i = int(np.argmax(res))
                viol.append((op + "/not-lattice-move", "frame %d atom %d: displacement is not an integer combination of the cell vectors "
                             "(fractional residual %.3g)" % (f, i, res[i])))
                break
            if op in ("whole", "image"):
                for a, b in bonds:
                    d_after = np.linalg.norm(after[f, b] - after[f, a])
                    d_mic = oracle.mic((b64[f, b] - b64[f, a])[None], H)[1][0]
                    if abs(d_after - d_mic) > 1e-4 + 16 * oracle.EPS32 * xmax:
                        viol.append((op + "/bond-not-whole", "frame %d bond (%d,%d): separation %.5f after the call, minimum-image "
                                     "separation %.5f" % (f, a, b, d_after, d_mic)))
                        break
                if viol:
                    break
            if op == "image-nowhole" and case["scatter"] == "molecules":
                # molecules were whole on input: every non-anchor molecule must move as one unit
                shifts = np.round(delta @ np.linalg.inv(H))
                for idx in mol_atoms:
                    if set(idx) & anchor_atoms:
                        continue
                    if (shifts[idx] != shifts[idx[0]]).any():
                        viol.append((op + "/molecule-torn", "frame %d: atoms of one non-anchor molecule were moved by different lattice vectors" % f))
                        break
                if viol:
                    break
    tric = not all(gen.is_ortho(c) for c in case["cells"])
    if split:
        labels.append("bond-split-on-input")
    if any(m["order"] == "permuted" for m in case["mols"]) or case["bond_order"] == "shuffled":
        labels.append("general-ordering")
    else:
        labels.append("index-ordered")
    labels.append("cell:" + case["cells"][0]["kind"])
    return {"viol": viol, "labels": labels, "nontrivial": bool(split and (tric or len(case["mols"]) >= 2))}


TECHNIQUE = "property-based testing (Hypothesis): constructed periodic molecular systems with known bonds, scattered by lattice vectors; lattice-displacement and wholeness oracles"
LEVEL_TEXT = ("Generated multi-molecule periodic systems (chains, trees, rings, ions; arbitrary atom and bond ordering) are scattered over "
              "periodic images and passed through make_molecules_whole / image_molecules; per-atom displacements must be integer lattice "
              "vectors (modulo one translation per frame), every bond must end at its minimum-image length, molecules move as units, "
              "cell/time/original untouched.")
LEVEL_NOTE = "The Cython kernel (image_molecules.pxi) cannot be rebuilt or mutated in this sandbox; its Python callers can."
