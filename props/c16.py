"""C16 - derived descriptors equal their defining formulas (float64 closed forms on the same float32 coordinates)."""
import itertools
import math
import os
import warnings

import numpy as np
from hypothesis import strategies as st

from vlib import files, gen, oracle

ID = "C16"
EPS32 = float(np.finfo(np.float32).eps)
RULE = ("case = (solvated multi-chain system cut from the seed structures: protein residues of unequal size incl. GLY, optionally a residue "
        "without CA, ligand, ions, waters; 1-3 noisy frames; optional orthorhombic / triclinic cell) x descriptor in {contacts for the 5 "
        "schemes x 'all' / explicit pairs x periodic x soft_min(beta), centre of mass / geometry, Rg (+ weight scaling), gyration tensor, "
        "principal moments, asphericity, acylindricity, kappa^2, inertia tensor, density (+ masses), RDF with r_range / bin settings, time-dependent "
        "RDF g(r,t) with self correlation / period / pairs handled 7-100000 at a time, "
        "DRID with atom subsets, dipole moments, Karplus J couplings (HN-HA 3 models, HN-C, HN-CB), directors / nematic order over chains, "
        "residues or explicit groups, isothermal compressibility and static dielectric from the cell-volume / dipole fluctuations}; oracle = float64 closed form from the documentation evaluated on "
        "the same coordinates, masses and cell, with label / index bookkeeping checked against the returned labels; non-trivial = "
        "residues of unequal size and >= 3 residue pairs, or a non-default RDF range, or an atom subset")
QUICK = {"examples": 500, "shards": 12, "budget_s": 110}
THOROUGH = {"examples": 4000, "shards": 16, "budget_s": 1700}
ASSUMPTIONS = ["contact distances are re-derived from md.compute_distances values of the designated atom pairs (bookkeeping, not C05, is under test)",
               "asphericity / acylindricity / kappa^2 use the standard definitions of the cited NIST reference on the ascending principal moments",
               "Rg with masses: only invariance under scaling of the weights is asserted (the docstring gives no formula); dipole moments are "
               "compared up to one global sign (the docstring fixes none)",
               "directors are compared up to sign and only where the smallest moment of inertia is separated from the next by > 1e-3 of the largest",
               "RDF: pairs whose distance lies within 1e-6 of a bin edge are not counted in the comparison"]
WHERE = {
    # soft minimum evaluated in single precision: exp(beta/d) overflows for beta/d > 88 (d < 0.23 nm with the default beta)
    "C16-softmin-overflow": lambda c, k: c["what"] == "contacts" and bool(c.get("soft")) and c.get("scheme") != "ca",
}
_SEED = {}


def seed_system():
    if "t" not in _SEED:
        import mdtraj as md
        with warnings.catch_warnings():
            warnings.simplefilter("ignore")
            _SEED["t"] = md.load(os.path.join(files.VERIF, "seeds", "mix.h5"))[0]
    return _SEED["t"]


@st.composite
def strategy(draw, tier="quick"):
    what = draw(st.sampled_from(["contacts", "contacts", "contacts", "moments", "rdf", "rdf_t", "drid", "dipole", "jcoupling", "density", "nematic", "volume-stats"]))
    case = {"what": what, "seed": draw(st.integers(0, 2 ** 31)), "nf": draw(st.integers(1, 3)),
            "nres": draw(st.integers(6, 14)), "start": draw(st.integers(0, 20)), "drop_ca": draw(st.integers(0, 4)) == 0,
            "extras": draw(st.sampled_from(["none", "water", "water+ions+lig"])),
            "cell": draw(st.sampled_from([None, "ortho", "tric"])), "noise": draw(st.sampled_from([0.0, 0.01, 0.05]))}
    if what == "contacts":
        case.update(scheme=draw(st.sampled_from(["ca", "closest", "closest-heavy", "sidechain", "sidechain-heavy"])),
                    pairs=draw(st.sampled_from(["all", "explicit", "explicit", "explicit-both-orders"])), periodic=draw(st.booleans()),
                    soft=draw(st.sampled_from([None, None, 20.0, 5.0])), ignore_nonprotein=draw(st.booleans()))
    if what == "rdf":
        case.update(rlo=draw(st.sampled_from([0.0, 0.0, 0.1])), rhi=draw(st.sampled_from([1.0, 0.6, 1.45])),
                    bins=draw(st.sampled_from([None, None, 7, 40])), width=draw(st.sampled_from([0.005, 0.05, 0.13])))
    if what == "moments":
        case["offset"] = draw(st.sampled_from([0.0, 0.0, 30.0, 300.0]))      # the whole system far from the origin
        # ideal shapes lying exactly along an axis / in a coordinate plane (the shape tensors are then exactly diagonal, with the
        # zero entries wherever the flat axes are)
        case["shape"] = draw(st.sampled_from([None, None, None, "rod-x", "rod-y", "rod-z", "plate-xy", "plate-yz", "plate-xz"]))
    if what == "rdf_t":
        case.update(nf=draw(st.integers(2, 5)), rhi=draw(st.sampled_from([1.0, 0.6])), bins=draw(st.sampled_from([5, 20])),
                    self_corr=draw(st.booleans()), n_conc=draw(st.sampled_from([100000, 7, 10, 64])), npairs=draw(st.integers(3, 40)),
                    period=draw(st.sampled_from([None, 2])))
    if what == "nematic":
        case.update(groups=draw(st.sampled_from(["chains", "residues", "explicit", "explicit", "explicit-equal"])))
    if what == "volume-stats":
        case.update(nf=draw(st.integers(2, 6)), temperature=draw(st.sampled_from([250.0, 298.15, 400.0])))
    if what == "drid":
        case.update(subset=draw(st.sampled_from(["all", "every3", "random"])))
    return case


def build(case):
    import mdtraj as md
    base = seed_system()
    top = base.topology
    rng = np.random.Generator(np.random.PCG64(case["seed"]))
    prot = [r for r in top.residues if r.is_protein]
    start = min(case["start"], len(prot) - case["nres"])
    chosen = prot[start:start + case["nres"]]
    keep = [a.index for r in chosen for a in r.atoms]
    if case["drop_ca"]:
        victim = chosen[len(chosen) // 2]
        keep = [i for i in keep if not (top.atom(i).residue is victim and top.atom(i).name == "CA")]
    if case["extras"] != "none":
        wat = [r for r in top.residues if r.name == "HOH"][:5]
        keep += [a.index for r in wat for a in r.atoms]
    if case["extras"] == "water+ions+lig":
        keep += [a.index for r in top.residues if r.name in ("CL", "LIG") for a in r.atoms]
    sub = base.atom_slice(sorted(keep))
    nf = case["nf"]
    x0 = sub.xyz[0].astype(np.float64)
    x0 -= x0.min(0) - 0.5
    x0 += case.get("offset", 0.0) * np.array([1.0, -0.7, 0.4])
    xyz = np.array([x0 + rng.normal(0, case["noise"] * (1 + f), x0.shape) for f in range(nf)]).astype(np.float32)
    if case.get("shape"):
        keep_ax = {"rod-x": [0], "rod-y": [1], "rod-z": [2], "plate-xy": [0, 1], "plate-yz": [1, 2], "plate-xz": [0, 2]}[case["shape"]]
        for ax in range(3):
            if ax not in keep_ax:
                xyz[:, :, ax] = 0.0
    t = md.Trajectory(xyz, sub.topology, time=np.arange(nf) * 1.0)
    need_cell = case["what"] in ("rdf", "rdf_t", "density", "dipole", "volume-stats")
    cell = case["cell"] or ("ortho" if need_cell else None)
    if cell:
        ext = float(xyz.max()) + 1.0
        L = np.array([[ext + 0.1 * f, ext + 0.5, ext + 1.0] for f in range(nf)], dtype=np.float32)
        A = np.array([[90.0, 90.0, 90.0] if cell == "ortho" else [80.0, 95.0, 105.0]] * nf, dtype=np.float32)
        t.unitcell_lengths, t.unitcell_angles = L, A
    return t


def _is_sidechain(a):
    return a.residue.is_protein and a.name not in ("C", "CA", "N", "O", "HA", "H")


def run_case(case):
    import mdtraj as md
    viol, labels = [], ["what:" + case["what"]]
    nontrivial = False
    with warnings.catch_warnings():
        warnings.simplefilter("ignore")
        t = build(case)
        top = t.topology
        n, nf = t.n_atoms, t.n_frames
        x = t.xyz.astype(np.float64)
        masses = np.array([a.element.mass for a in top.atoms], dtype=np.float64)
        what = case["what"]
        if what == "contacts":
            scheme = case["scheme"]
            residues = list(top.residues)
            has_ca = [any(a.name == "CA" for a in r.atoms) for r in residues]
            rng = np.random.Generator(np.random.PCG64(case["seed"] + 1))
            if case["pairs"] == "all":
                contacts = "all"
            else:
                k = int(rng.integers(3, 10))
                contacts = [[int(a), int(b)] for a, b in rng.integers(0, len(residues), (k, 2)) if a != b]
                seen_, uniq = set(), []
                for a, b in contacts:      # the square form has one entry per unordered pair: no duplicates, no (i,j)+(j,i)
                    if frozenset((a, b)) not in seen_:
                        seen_.add(frozenset((a, b)))
                        uniq.append([a, b])
                contacts = uniq
                if not contacts:
                    contacts = [[0, len(residues) - 1]]
                if case["pairs"] == "explicit-both-orders":
                    # as itertools.product(group, group) / permutations give them: some pairs also in the other order
                    contacts = contacts + [[b, a] for a, b in contacts[::2]]
                if scheme == "ca":
                    # pairs with a residue lacking CA are documented to be ignored; keep at least one that is not
                    with_ca = [i for i, h in enumerate(has_ca) if h]
                    if frozenset((with_ca[0], with_ca[-1])) not in {frozenset(p) for p in contacts}:
                        contacts.append([with_ca[0], with_ca[-1]])
            kw = dict(scheme=scheme, periodic=case["periodic"], ignore_nonprotein=case["ignore_nonprotein"])
            if case["soft"]:
                kw.update(soft_min=True, soft_min_beta=case["soft"])
            # designated atom sets per scheme, from the documented descriptions
            def members(r):
                if scheme == "ca":
                    return [a.index for a in r.atoms if a.name == "CA"]
                if scheme == "closest":
                    return [a.index for a in r.atoms]
                if scheme == "closest-heavy":
                    return [a.index for a in r.atoms if a.element.symbol != "H"]
                if scheme == "sidechain":
                    return [a.index for a in r.atoms if _is_sidechain(a)]
                heavy = [a.index for a in r.atoms if _is_sidechain(a) and a.element.symbol != "H"]
                if r.name == "GLY":
                    return [a.index for a in r.atoms if _is_sidechain(a)]   # documented: glycine falls back to its side-chain hydrogen
                return heavy
            if contacts != "all" and scheme != "ca" and any(len(members(residues[a])) == 0 or len(members(residues[b])) == 0 for a, b in contacts):
                contacts = [p for p in contacts if len(members(residues[p[0]])) and len(members(residues[p[1]]))] or "all"
            if contacts == "all" and scheme in ("sidechain", "sidechain-heavy"):
                # 'all' pairs residues with a CA; every such residue needs a non-empty designated set
                if any(has_ca[i] and not members(r) for i, r in enumerate(residues)):
                    return {"viol": [], "labels": labels + ["skipped-empty-sidechain"], "nontrivial": False}
            if contacts == "all" and not case["ignore_nonprotein"] and scheme != "closest" and scheme != "closest-heavy":
                if any(not members(r) for r in residues):
                    return {"viol": [], "labels": labels + ["skipped-empty-set"], "nontrivial": False}
            try:
                dist, rp = md.compute_contacts(t, contacts, **kw)
            except ValueError as e:
                if "No acceptable residue pairs" in str(e):
                    return {"viol": [], "labels": labels + ["no-pairs"], "nontrivial": False}
                raise
            rp = np.asarray(rp)
            # (1) which residue pairs: 'all' = same chain, |i-j| >= 3, (CA present when ignore_nonprotein or scheme ca)
            if contacts == "all":
                exp_pairs = []
                for i in range(len(residues)):
                    for j in range(i + 3, len(residues)):
                        if residues[i].chain is not residues[j].chain:
                            continue
                        if (case["ignore_nonprotein"] or scheme == "ca") and not (has_ca[i] and has_ca[j]):
                            continue
                        exp_pairs.append((i, j))
            else:
                exp_pairs = [tuple(p) for p in contacts]
                if scheme == "ca":
                    exp_pairs = [p for p in exp_pairs if has_ca[p[0]] and has_ca[p[1]]]
            if [tuple(int(v) for v in p) for p in rp] != exp_pairs:
                viol.append(("contacts/pair-labels", "returned residue pairs %s..., expected %s..." % (rp[:4].tolist(), exp_pairs[:4])))
            elif dist.shape != (nf, len(exp_pairs)):
                viol.append(("contacts/shape", "%s for %d pairs" % (dist.shape, len(exp_pairs))))
            else:
                for k, (i, j) in enumerate(exp_pairs):
                    ap = list(itertools.product(members(residues[i]), members(residues[j])))
                    d = md.compute_distances(t, ap, periodic=case["periodic"]).astype(np.float64)
                    if case["soft"] and scheme != "ca":
                        b = case["soft"]
                        want = b / np.log(np.exp(b / d).sum(1))
                        tol = 1e-4 * np.abs(want) + 1e-5
                    else:
                        want = d.min(1)
                        tol = 1e-7
                    if case["soft"] and scheme != "ca" and (case["soft"] / d.min(1) > 85).any() and \
                            (~(np.abs(dist[:, k] - want) <= tol)).any():
                        # exp(beta/d) leaves the single-precision range: a separate, known root cause (see known_findings.jsonl)
                        viol.append(("contacts/soft-min-overflow", "pair %s: beta/d = %.0f overflows exp() in single precision; returned %s, "
                                     "documented soft minimum %s" % ((i, j), float((case["soft"] / d.min(1)).max()), dist[:, k], want)))
                        break
                    if (~(np.abs(dist[:, k] - want) <= tol)).any():
                        viol.append(("contacts/value", "pair %s scheme %s: returned %s, %s over the designated atom pairs gives %s" % (
                            (i, j), scheme, dist[:, k], "soft minimum" if case["soft"] else "minimum", want)))
                        break
                sq = md.geometry.squareform(dist, rp)
                occ = {}
                for k, (i, j) in enumerate(exp_pairs):
                    occ.setdefault(frozenset((i, j)), []).append(k)
                for k, (i, j) in enumerate(exp_pairs[:20]):
                    # (a pair listed in both orders has two columns, equal up to the order of summation: either may be shown)
                    ks = occ[frozenset((i, j))]
                    if not any(np.array_equal(sq[:, i, j], dist[:, k2]) for k2 in ks) or not any(np.array_equal(sq[:, j, i], dist[:, k2]) for k2 in ks):
                        viol.append(("contacts/squareform", "entry (%d,%d) of the square form is not the distance of that pair" % (i, j)))
                        break
            sizes = {len(members(r)) for r in residues}
            nontrivial = len(sizes) > 1 and len(exp_pairs) >= 3
            labels += ["scheme:" + scheme, "pairs:" + case["pairs"]] + (["soft_min"] if case["soft"] else [])
        elif what == "moments":
            com = md.compute_center_of_mass(t)
            want = (x * masses[None, :, None]).sum(1) / masses.sum()
            if not np.allclose(com, want, rtol=1e-10, atol=1e-9):
                viol.append(("center_of_mass", "max deviation %.3g" % float(np.abs(com - want).max())))
            sel = "protein and name CA"
            idx = top.select(sel)
            if len(idx):
                cs = md.compute_center_of_mass(t, select=sel)
                ws = (x[:, idx] * masses[None, idx, None]).sum(1) / masses[idx].sum()
                if not np.allclose(cs, ws, rtol=1e-10, atol=1e-9):
                    viol.append(("center_of_mass-select", "max deviation %.3g" % float(np.abs(cs - ws).max())))
            cog = md.compute_center_of_geometry(t)
            if not np.allclose(cog, x.mean(1), rtol=1e-10, atol=1e-9):
                viol.append(("center_of_geometry", "max deviation %.3g" % float(np.abs(cog - x.mean(1)).max())))
            rg = md.compute_rg(t)
            wrg = np.sqrt(((x - x.mean(1)[:, None]) ** 2).sum(2).mean(1))
            if not np.allclose(rg, wrg, rtol=2e-5):
                viol.append(("rg", "got %s formula %s" % (rg, wrg)))
            m = masses
            r1, r2 = md.compute_rg(t, masses=m), md.compute_rg(t, masses=7.5 * m)
            if not np.allclose(r1, r2, rtol=1e-6):
                viol.append(("rg-weight-scaling", "Rg changes when all masses are multiplied by a constant"))
            S = md.compute_gyration_tensor(t)
            c = x - x.mean(1)[:, None]
            wS = np.einsum("fni,fnj->fij", c, c) / n
            if not np.allclose(S, wS, rtol=1e-4, atol=1e-6):
                viol.append(("gyration_tensor", "max deviation %.3g" % float(np.abs(S - wS).max())))
            lam = np.linalg.eigvalsh(wS)
            pm = md.principal_moments(t)
            if not np.allclose(pm, lam, rtol=1e-4, atol=1e-6) or (np.diff(pm, axis=1) < -1e-9).any():
                viol.append(("principal_moments", "got %s, ascending eigenvalues of the gyration tensor %s" % (pm[0], lam[0])))
            for name, fn, w in (("asphericity", md.asphericity, lam[:, 2] - 0.5 * (lam[:, 0] + lam[:, 1])),
                                ("acylindricity", md.acylindricity, lam[:, 1] - lam[:, 0]),
                                ("relative_shape_antisotropy", md.relative_shape_antisotropy,
                                 1.5 * (lam ** 2).sum(1) / lam.sum(1) ** 2 - 0.5)):
                g = fn(t)
                if not np.allclose(g, w, rtol=1e-3, atol=1e-6):
                    viol.append((name, "got %s formula %s" % (g, w)))
            I = md.compute_inertia_tensor(t)
            cm = x - want[:, None]
            r2_ = (cm ** 2).sum(2)
            wI = np.einsum("n,fn->f", masses, r2_)[:, None, None] * np.eye(3)[None] - np.einsum("n,fni,fnj->fij", masses, cm, cm)
            if not np.allclose(I, wI, rtol=1e-4, atol=1e-4):
                viol.append(("inertia_tensor", "max deviation %.3g" % float(np.abs(I - wI).max())))
            nontrivial = True
        elif what == "density":
            vol = np.array([abs(np.linalg.det(gen.box_vectors(t.unitcell_lengths[f], t.unitcell_angles[f]))) for f in range(nf)])
            d = md.density(t)
            w = masses.sum() / vol * 1.6605387823355087
            if not np.allclose(d, w, rtol=1e-5):
                viol.append(("density", "got %s, sum(m)/V in kg/m^3 %s" % (d, w)))
            m2 = np.arange(1, n + 1, dtype=float)
            d2 = md.density(t, masses=m2)
            if not np.allclose(d2, m2.sum() / vol * 1.6605387823355087, rtol=1e-5):
                viol.append(("density-masses", "custom masses not used as documented"))
            nontrivial = case["cell"] == "tric"
        elif what == "rdf":
            heavy = [a.index for a in top.atoms if a.element.symbol != "H"][:40]
            pairs = np.array(list(itertools.combinations(heavy, 2)))
            rr = (case["rlo"], case["rhi"])
            kw = {"r_range": rr}
            if case["bins"]:
                kw["n_bins"] = case["bins"]
                nb = case["bins"]
            else:
                kw["bin_width"] = case["width"]
                nb = int((rr[1] - rr[0]) / case["width"])
            if nb < 1:
                return {"viol": [], "labels": labels + ["no-bins"], "nontrivial": False}
            flags = [(True, True), (True, True), (False, True), (True, False), (False, False)][case["seed"] % 5]
            if flags != (True, True):
                kw.update(periodic=flags[0], opt=flags[1])
                labels.append("rdf-flags:%s" % (flags,))
            r, g = md.compute_rdf(t, pairs, **kw)
            edges = np.linspace(rr[0], rr[1], nb + 1)
            dist = md.compute_distances(t, pairs, periodic=flags[0]).astype(np.float64)
            vol = np.array([abs(np.linalg.det(gen.box_vectors(t.unitcell_lengths[f], t.unitcell_angles[f]))) for f in range(nf)])
            near = np.abs(dist[..., None] - edges).min(-1) < 1e-6
            cnt = np.histogram(dist[~near], bins=edges)[0].astype(np.float64)
            amb = np.array([np.sum(near & (np.abs(dist - e) < 1e-6)) for e in edges])
            shell = 4.0 / 3.0 * math.pi * (edges[1:] ** 3 - edges[:-1] ** 3)
            norm = len(pairs) * np.sum(1.0 / vol) * shell
            if len(r) != nb or not np.allclose(r, 0.5 * (edges[1:] + edges[:-1]), atol=1e-9):
                viol.append(("rdf/bin-centres", "r = %s..., expected centres %s..." % (r[:3], (0.5 * (edges[1:] + edges[:-1]))[:3])))
            else:
                lo = cnt / norm
                hi = (cnt + amb[:-1] + amb[1:]) / norm
                if ((g < lo * (1 - 1e-6) - 1e-12) | (g > hi * (1 + 1e-6) + 1e-12)).any():
                    k = int(np.argmax((g < lo * (1 - 1e-6) - 1e-12) | (g > hi * (1 + 1e-6) + 1e-12)))
                    viol.append(("rdf/value", "bin %d [%.4f,%.4f): g=%.6g, count/(n_pairs*sum(1/V)*shell) = %.6g" % (k, edges[k], edges[k + 1], g[k], lo[k])))
            nontrivial = rr != (0.0, 1.0) or case["bins"] is not None
        elif what == "rdf_t":
            # time-dependent g(r, t): counts of |r_j(t2) - r_i(t1)| per shell over all pairs (plus i == j when self_correlation),
            # divided by n_pairs / period_length * sum_f 1/V_f * shell volume - whatever the number of pairs handled at a time
            rng = np.random.Generator(np.random.PCG64(case["seed"] + 6))
            heavy = [a.index for a in top.atoms if a.element.symbol != "H"][:30]
            allp = np.array(list(itertools.combinations(heavy, 2)))
            pairs = allp[rng.choice(len(allp), min(case["npairs"], len(allp)), replace=False)]
            times = np.array([[int(a), int(b)] for a, b in rng.integers(0, nf, (4, 2))])
            rr = (0.0, case["rhi"])
            nb = case["bins"]
            kw = {} if case["period"] is None else {"period_length": case["period"]}
            r, g = md.compute_rdf_t(t, pairs, times, r_range=rr, n_bins=nb, self_correlation=case["self_corr"],
                                    n_concurrent_pairs=case["n_conc"], **kw)
            full = pairs
            if case["self_corr"]:
                u = np.unique(pairs)
                full = np.vstack([np.stack([u, u], 1), pairs])
            dist = md.compute_distances_t(t, full, times).astype(np.float64)      # (n_times, n_pairs): bookkeeping, not C05, is under test
            edges = np.linspace(rr[0], rr[1], nb + 1)
            vol = np.array([abs(np.linalg.det(gen.box_vectors(t.unitcell_lengths[f], t.unitcell_angles[f]))) for f in range(nf)])
            shell = 4.0 / 3.0 * math.pi * (edges[1:] ** 3 - edges[:-1] ** 3)
            period = case["period"] or nf
            norm = len(full) / period * np.sum(1.0 / vol) * shell
            if g.shape != (len(times), nb) or not np.allclose(r, 0.5 * (edges[1:] + edges[:-1]), atol=1e-9):
                viol.append(("rdf_t/shape-or-centres", "g %s, r %s..." % (g.shape, r[:3])))
            else:
                for n_ in range(len(times)):
                    d_ = dist[n_]
                    near = np.abs(d_[:, None] - edges).min(-1) < 1e-6
                    cnt = np.histogram(d_[~near], bins=edges)[0].astype(np.float64)
                    amb = np.array([np.sum(near & (np.abs(d_ - e) < 1e-6)) for e in edges])
                    lo, hi = cnt / norm, (cnt + amb[:-1] + amb[1:]) / norm
                    bad = (g[n_] < lo * (1 - 1e-6) - 1e-12) | (g[n_] > hi * (1 + 1e-6) + 1e-12)
                    if bad.any():
                        k = int(np.argmax(bad))
                        viol.append(("rdf_t/value", "time pair %s bin %d: g=%.6g, count/(n_pairs/period*sum(1/V)*shell) = %.6g (%d pairs, %d at a time)" % (
                            times[n_].tolist(), k, g[n_, k], lo[k], len(full), case["n_conc"])))
                        break
            labels.append("rdf_t:chunks=%d" % int(np.ceil(len(full) / case["n_conc"])))
            nontrivial = len(full) > case["n_conc"] and len(full) % case["n_conc"] != 0
        elif what == "drid":
            if case["subset"] == "all":
                idx = np.arange(n)
            elif case["subset"] == "every3":
                idx = np.arange(0, n, 3)
            else:
                idx = np.sort(np.random.Generator(np.random.PCG64(case["seed"] + 2)).choice(n, max(4, n // 4), replace=False))
            X = md.compute_drid(t, atom_indices=idx)
            bonded = {i: set() for i in range(n)}
            for b in top.bonds:
                bonded[b[0].index].add(b[1].index)
                bonded[b[1].index].add(b[0].index)
            if X.shape != (nf, 3 * len(idx)):
                viol.append(("drid/shape", str(X.shape)))
            else:
                for f in range(nf):
                    for k, i in enumerate(idx):
                        partners = [j for j in idx if j != i and j not in bonded[i]]
                        rec = 1.0 / np.linalg.norm(x[f, partners] - x[f, i], axis=1)
                        mu = rec.mean()
                        nu = math.sqrt(((rec - mu) ** 2).mean())
                        xi3 = ((rec - mu) ** 3).mean()
                        got = X[f, 3 * k:3 * k + 3]
                        if abs(got[0] - mu) > 1e-4 * abs(mu) or abs(got[1] - nu) > 1e-4 * abs(nu) + 1e-7 or \
                                abs(got[2] ** 3 - xi3) > 1e-3 * (abs(xi3) + nu ** 3 * 1e-3) + 1e-9:
                            viol.append(("drid/value", "frame %d atom %d: got (%.6g, %.6g, %.6g^3=%.6g), moments of 1/d over non-bonded partners (%.6g, %.6g, third %.6g)" % (
                                f, i, got[0], got[1], got[2], got[2] ** 3, mu, nu, xi3)))
                            break
                    if viol:
                        break
            nontrivial = case["subset"] != "all"
        elif what == "dipole":
            rng = np.random.Generator(np.random.PCG64(case["seed"] + 3))
            q = rng.normal(0, 0.5, n)
            mom = md.geometry.thermodynamic_properties.dipole_moments(t, q)
            first = np.array([a.residue.atom(0).index for a in top.atoms])
            loc = md.compute_displacements(t, np.stack([np.arange(n), first], 1), periodic=True).astype(np.float64)
            mol = md.compute_displacements(t, np.stack([first, np.zeros(n, int)], 1), periodic=True).astype(np.float64)
            want = np.einsum("fni,n->fi", loc + mol, q)
            if mom.shape != want.shape or not (np.allclose(mom, want, rtol=1e-4, atol=1e-5) or np.allclose(mom, -want, rtol=1e-4, atol=1e-5)):
                viol.append(("dipole_moments", "got %s, documented construction gives %s" % (mom[0], want[0])))
            nontrivial = True
        elif what == "nematic":
            rng = np.random.Generator(np.random.PCG64(case["seed"] + 4))
            if case["groups"] == "chains":
                arg, groups = "chains", [[a.index for a in c.atoms] for c in top.chains]
            elif case["groups"] == "residues":
                arg, groups = "residues", [[a.index for a in r.atoms] for r in top.residues]
            else:
                groups = []
                k_eq = int(rng.integers(3, min(n, 9)))        # "explicit-equal": every group has the same number of atoms
                for _ in range(int(rng.integers(1, 6)) + (1 if case["groups"] == "explicit-equal" else 0)):
                    k = k_eq if case["groups"] == "explicit-equal" else int(rng.integers(3, min(n, 30)))
                    groups.append(sorted(int(i) for i in rng.choice(n, k, replace=False)))
                arg = groups
            D = md.compute_directors(t, arg)
            S2 = md.compute_nematic_order(t, arg)
            if D.shape != (nf, len(groups), 3) or S2.shape != (nf,):
                viol.append(("nematic/shape", "directors %s, S2 %s for %d frames and %d groups" % (D.shape, S2.shape, nf, len(groups))))
            else:
                for f in range(nf):
                    sound = True
                    E = np.zeros((len(groups), 3))
                    for g, ids in enumerate(groups):
                        m = masses[ids]
                        r = x[f, ids] - (m[:, None] * x[f, ids]).sum(0) / m.sum()
                        I = (m * (r ** 2).sum(1)).sum() * np.eye(3) - np.einsum("i,ia,ib->ab", m, r, r)
                        w, v = np.linalg.eigh(I)
                        if len(ids) < 3 or not (w[1] - w[0] > 1e-3 * w[2] > 0):
                            sound = False       # no unique long axis: any director is as good as another
                            continue
                        E[g] = v[:, 0]
                        d = D[f, g] / np.linalg.norm(D[f, g])
                        # the axis is defined up to sign; conditioning of the eigenvector ~ eps32 * w2 / gap
                        tol = 1e-5 + 64 * EPS32 * w[2] / (w[1] - w[0]) * (1 + np.abs(x[f, ids]).max() / max(np.sqrt((r ** 2).sum(1)).max(), 1e-9))
                        if not abs(abs(d @ v[:, 0]) - 1.0) <= tol:
                            viol.append(("nematic/director", "frame %d group %d: director %s is not the axis of smallest moment of inertia %s (|cos|=%.6f)" % (
                                f, g, d, v[:, 0], abs(d @ v[:, 0]))))
                            break
                    # S2 = largest eigenvalue of Q = 1/(2N) sum (3 e e^T - 1): from the returned directors always, from the oracle's when defined
                    for name, V in (("from-returned-directors", D[f] / np.linalg.norm(D[f], axis=1)[:, None]),) + ((("from-inertia-axes", E),) if sound else ()):
                        if not np.isfinite(V).all():
                            continue
                        Q = (3 * np.einsum("ga,gb->ab", V, V) - len(groups) * np.eye(3)) / (2.0 * len(groups))
                        want = np.linalg.eigvalsh(Q).max()
                        tolS = 1e-6 if name == "from-returned-directors" else 2e-3
                        if not abs(S2[f] - want) <= tolS:
                            viol.append(("nematic/S2/" + name, "frame %d: S2 %.8f, largest eigenvalue of Q %.8f" % (f, S2[f], want)))
                    if viol:
                        break
            labels.append("groups:" + case["groups"])
            nontrivial = len(groups) >= 2
        elif what == "volume-stats":
            from mdtraj.geometry import thermodynamic_properties as tp
            T = case["temperature"]
            V = np.array([abs(np.linalg.det(b)) for b in t.unitcell_vectors.astype(np.float64)])
            kB = 1.380649e-23
            # kappa_T = (<V^2> - <V>^2) / (kB T <V>), sample (n-1) covariance as numpy.cov, nm^3 -> m^3, in 1/bar
            want = (V.var(ddof=1) / V.mean()) * 1e-27 / (kB * T) * 1e5
            got = tp.isothermal_compressability_kappa_T(t, T)
            if not abs(float(got) - want) <= 2e-3 * abs(want) + 1e-12:
                viol.append(("kappa_T", "got %.8g 1/bar, var(V)/(kB T <V>) = %.8g" % (float(got), want)))
            rng = np.random.Generator(np.random.PCG64(case["seed"] + 5))
            q = rng.normal(0, 0.5, n)
            M = tp.dipole_moments(t, q).astype(np.float64)
            var = ((M - M.mean(0)) ** 2).sum(1).mean()
            e, eps0 = 1.602176634e-19, 8.8541878128e-12
            wantd = 1.0 + var * (e * 1e-9) ** 2 / (3 * kB * T * V.mean() * 1e-27 * eps0)
            gotd = tp.static_dielectric(t, q, T)
            if not abs(float(gotd) - wantd) <= 2e-3 * abs(wantd):
                viol.append(("static_dielectric", "got %.8g, 1 + <dM^2>/(3 kB T <V> eps0) = %.8g" % (float(gotd), wantd)))
            nontrivial = nf >= 3
        elif what == "jcoupling":
            idx, phi = md.compute_phi(t)
            for fn, (A, B, C), ph0 in ((md.compute_J3_HN_C, (4.36, -1.08, -0.01), math.pi), (md.compute_J3_HN_CB, (3.71, -0.59, 0.08), math.pi / 3)):
                i2, J = fn(t)
                p = phi.astype(np.float64) + ph0
                w = A * np.cos(p) ** 2 + B * np.cos(p) + C
                if not np.array_equal(i2, idx) or J.shape != w.shape or not np.allclose(J, w, rtol=1e-4, atol=1e-4):
                    viol.append((fn.__name__, "Karplus relation with the tabulated Bax2007 coefficients not reproduced"))
            for model, (A, B, C) in (("Bax2007", (8.4, -1.36, 0.33)), ("Ruterjans1999", (7.90, -1.05, 0.65)), ("Bax1997", (7.09, -1.42, 1.55))):
                i2, J = md.compute_J3_HN_HA(t, model=model)
                p = phi.astype(np.float64) - math.pi / 3
                w = A * np.cos(p) ** 2 + B * np.cos(p) + C
                if not np.array_equal(i2, idx) or J.shape != w.shape or not np.allclose(J, w, rtol=1e-4, atol=1e-4):
                    viol.append(("J3_HN_HA/" + model, "Karplus relation with the tabulated coefficients not reproduced"))
            nontrivial = len(idx) >= 3
    return {"viol": viol, "labels": labels, "nontrivial": bool(nontrivial)}


TECHNIQUE = "property-based testing (Hypothesis) against float64 closed forms from the documentation; bookkeeping re-derivation from returned labels"
LEVEL_TEXT = ("Generated solvated multi-chain systems (unequal residue sizes, GLY, a residue without CA, ligand, ions, water; optional cells) are "
              "passed to compute_contacts (5 schemes, 'all'/explicit pairs, soft minimum), centre of mass/geometry, Rg, gyration/inertia tensors "
              "and shape descriptors, density, RDF, DRID, dipole moments, Karplus couplings, directors / nematic order, compressibility and static "
              "dielectric; every result is compared with the documented "
              "closed form in float64, including the residue-pair labels, square form, bin centres and atom bookkeeping.")
LEVEL_NOTE = "Element masses and the Karplus coefficient tables are taken from the documented tables (pinned for the J couplings); one seed system."
