"""C07 - angles and dihedrals equal their geometric definitions (periodic or not); named torsions use the documented atoms."""
import itertools
import math
import warnings

import numpy as np
from hypothesis import strategies as st

from vlib import gen, oracle

ID = "C07"
RULE = ("case A (geometry) = chain-like coordinates (4-14 atoms, bond lengths 0.05-0.4 nm, optional near-collinear runs and near-planar "
        "cis/trans quartets, offsets to 300 nm), optional cell of every C05 kind (>=4 nm) with every atom scattered by lattice vectors, "
        "triplet / quartet index lists with repeats, periodic, opt; oracle = float64 atan2 formulas on exact minimum-image bond vectors, "
        "reversal and mirror laws, opt == reference. case B (named torsions) = peptide topologies from residue templates with chain "
        "breaks, several chains, missing atoms, interleaved non-protein residues; oracle = independent walk over chains/residues for "
        "phi/psi/omega/chi1-5 from the documented atom names. non-trivial = periodic with a bond crossing a cell face, or sin(theta)<0.05, "
        "or a peptide with a chain break / missing atom / second chain")
QUICK = {"examples": 300, "shards": 12, "budget_s": 100}
THOROUGH = {"examples": 8000, "shards": 16, "budget_s": 1500}
ASSUMPTIONS = ["tolerance: angle error <= 4*min(d/sin(theta), sqrt(2d)) with d = 16*eps32*(|x|max+|cell|max)/l_min; torsions 4*d/min(sin of the "
               "two bond angles); quartets whose bond angles have sin < 1e-3 are labelled ill-conditioned and only checked for range",
               "index tuples under periodic=True are only compared when every bond vector is inside the minimum-image range (< 0.45 w_min)"]
WHERE = {}

TEMPLATES = {
    "GLY": [], "ALA": ["CB"], "SER": ["CB", "OG"], "CYS": ["CB", "SG"], "THR": ["CB", "OG1", "CG2"], "VAL": ["CB", "CG1", "CG2"],
    "LEU": ["CB", "CG", "CD1", "CD2"], "ILE": ["CB", "CG1", "CG2", "CD1"], "MET": ["CB", "CG", "SD", "CE"], "PRO": ["CB", "CG", "CD"],
    "ASP": ["CB", "CG", "OD1", "OD2"], "ASN": ["CB", "CG", "OD1", "ND2"], "GLU": ["CB", "CG", "CD", "OE1", "OE2"],
    "GLN": ["CB", "CG", "CD", "OE1", "NE2"], "LYS": ["CB", "CG", "CD", "CE", "NZ"], "ARG": ["CB", "CG", "CD", "NE", "CZ", "NH1", "NH2"],
    "HIS": ["CB", "CG", "ND1", "CD2", "CE1", "NE2"], "PHE": ["CB", "CG", "CD1", "CD2", "CE1", "CE2", "CZ"],
}
CHI = {
    1: [["N", "CA", "CB", "CG"], ["N", "CA", "CB", "CG1"], ["N", "CA", "CB", "SG"], ["N", "CA", "CB", "OG"], ["N", "CA", "CB", "OG1"]],
    2: [["CA", "CB", "CG", "CD"], ["CA", "CB", "CG", "CD1"], ["CA", "CB", "CG1", "CD1"], ["CA", "CB", "CG", "OD1"], ["CA", "CB", "CG", "ND1"],
        ["CA", "CB", "CG", "SD"]],
    3: [["CB", "CG", "CD", "NE"], ["CB", "CG", "CD", "CE"], ["CB", "CG", "CD", "OE1"], ["CB", "CG", "SD", "CE"]],
    4: [["CG", "CD", "NE", "CZ"], ["CG", "CD", "CE", "NZ"]],
    5: [["CD", "NE", "CZ", "NH1"]],
}


@st.composite
def strategy(draw, tier="quick"):
    if draw(st.integers(0, 3)) == 0:
        return draw(_peptide_case())
    nf = draw(st.integers(1, 2))
    cells = draw(gen.cells(nf, lmin=4.0, lmax=20.0, kinds=gen.KINDS_GEOMETRY))
    n = draw(st.integers(4, 14))
    case = {"mode": "geom", "idxv": draw(st.sampled_from([0, 0, 0, 1, 2, 3, 4, 5])), "nf": nf, "cells": cells, "n": n, "seed": draw(st.integers(0, 2 ** 32 - 1)),
            "special": draw(st.sampled_from(["none", "none", "collinear", "planar"])),
            "scatter": draw(st.booleans()), "offset": draw(st.sampled_from([0.0, 0.0, 30.0, 300.0])),
            "periodic": draw(st.sampled_from([True, True, False]))}
    if draw(st.integers(0, 2)) == 0:
        case["tight"] = True
        case["scatter"] = draw(st.sampled_from([False, False, True]))
    trip = [[i, i + 1, i + 2] for i in range(n - 2)]
    quad = [[i, i + 1, i + 2, i + 3] for i in range(n - 3)]
    for _ in range(draw(st.integers(4, 8) if case.get("tight") else st.integers(0, 4))):
        t = draw(st.permutations(list(range(n))))[:3]
        trip.append(list(t))
    for _ in range(draw(st.integers(0, 4))):
        q = draw(st.permutations(list(range(n))))[:4]
        quad.append(list(q))
    if draw(st.booleans()):
        trip.append(trip[0])
        quad.append(quad[0])
    case["triplets"], case["quartets"] = trip, quad
    return case


@st.composite
def _peptide_case(draw):
    chains = []
    for _c in range(draw(st.integers(1, 3))):
        residues = []
        for _r in range(draw(st.integers(1, 6))):
            kind = draw(st.sampled_from(["aa"] * 8 + ["HOH", "LIG"]))
            if kind == "aa":
                name = draw(st.sampled_from(sorted(TEMPLATES)))
                atoms = ["N", "CA", "C", "O"] + TEMPLATES[name]
                if draw(st.integers(0, 5)) == 0:
                    atoms.remove(draw(st.sampled_from(atoms)))   # a missing atom
                residues.append([name, atoms])
            elif kind == "HOH":
                residues.append(["HOH", ["O"]])
            else:
                residues.append(["LIG", ["C1", "N", "CA"]])
        chains.append(residues)
    return {"mode": "peptide", "chains": chains, "seed": draw(st.integers(0, 2 ** 32 - 1)), "nf": draw(st.integers(1, 2)),
            # optional unit cell (atoms scattered over ~1 nm in a 2.5 - 3 nm cell: most legs need the minimum image) and the flags the
            # named functions are called with (None = defaults)
            # an atom renamed in place between two calls on the same Topology object (index of the residue, or None)
            "rename_between": draw(st.one_of(st.none(), st.none(), st.integers(0, 30))),
            "pcell": draw(st.sampled_from([None, "ortho", "tric"])),
            "pflags": draw(st.sampled_from([None, None, [True, True], [True, False], [False, True], [False, False]]))}


# ------------------------------------------------------------------------------------------------------------------

def _coords(case, Hs):
    rng = np.random.Generator(np.random.PCG64(case["seed"]))
    n, nf = case["n"], case["nf"]
    out = np.zeros((nf, n, 3))
    for f in range(nf):
        x = np.zeros((n, 3))
        x[0] = rng.uniform(0, 2, 3)
        u_prev = None
        for i in range(1, n):
            b = rng.uniform(0.05, 0.4)
            u = rng.normal(size=3)
            if case["special"] == "planar":
                u[2] *= rng.choice([1e-4, 1e-3, 1.0])
            u /= np.linalg.norm(u)
            if case["special"] == "collinear" and u_prev is not None and rng.random() < 0.6:
                w = rng.normal(size=3)
                u = u_prev * rng.choice([1.0, -1.0]) + w * rng.choice([1e-4, 1e-3, 1e-2])
                u /= np.linalg.norm(u)
            x[i] = x[i - 1] + b * u
            u_prev = u
        if Hs is not None and case["scatter"]:
            x = x + rng.integers(-2, 3, (n, 3)) @ Hs[f]
        out[f] = x + case["offset"]
    return out.astype(np.float32)


def _vec(d, H):
    """minimum-image vectors, their lengths and the smallest cell width (inf without cell)"""
    if H is None:
        return d, np.linalg.norm(d, axis=1), np.inf
    v, m = oracle.mic(d, H)
    return v, m, oracle.widths(H).min()


def _tie(v, H, margin):
    """True where another periodic image of the vector is (nearly) as short as the minimum image: the minimum-image vector is
    then not unique (or decided by rounding) and nothing is compared"""
    if H is None or len(v) == 0:
        return np.zeros(len(v), dtype=bool)
    R = oracle.reduce_basis(H)
    G = np.array([np.array(n, dtype=np.float64) @ R for n in itertools.product((-1, 0, 1), repeat=3) if any(n)])
    second = np.linalg.norm(v[:, None, :] - G[None, :, :], axis=2).min(axis=1)
    return second - np.linalg.norm(v, axis=1) < margin


def run_case(case):
    if case["mode"] == "peptide":
        return _run_peptide(case)
    import mdtraj as md
    viol, labels = [], ["special:" + case["special"]]
    nf, n, cells, periodic = case["nf"], case["n"], case["cells"], case["periodic"]
    if cells is not None and case.get("tight"):
        # a cell only a little more than twice as wide as the group of atoms: the legs between arbitrary atoms of the group come
        # close to half a cell edge, where (in a skewed cell) another image of the leg can be the shorter one
        x0 = _coords(dict(case, scatter=False, offset=0.0), None).astype(np.float64)
        ext = float((x0.max(axis=1) - x0.min(axis=1)).max())
        fac = (2.05 + (case["seed"] % 10) / 10.0) * max(ext, 0.05) / min(min(c["L"]) for c in cells)
        cells = [dict(c, L=[float(v) * fac for v in c["L"]]) for c in cells]
        labels.append("tight-cell")
    Hs = gen.cell_matrices(cells)
    xyz = _coords(case, Hs)
    traj = gen.make_traj(xyz, cells, top=gen.plain_topology(n, element="C", resname="LIG"))
    x = traj.xyz.astype(np.float64)
    use_cell = cells is not None and periodic
    if cells is not None:
        Hs = [gen.box_vectors(traj.unitcell_lengths[f], traj.unitcell_angles[f]) for f in range(nf)]
        labels.append("cell:" + cells[0]["kind"])
    T = np.array(case["triplets"], dtype=np.int64)
    Q = np.array(case["quartets"], dtype=np.int64)
    xmax = float(np.abs(x).max())
    cmax = max(float(np.abs(H).max()) for H in Hs) * (3 if case["scatter"] else 1) if cells is not None else 0.0
    crossing = False
    small_sin = False
    with warnings.catch_warnings():
        warnings.simplefilter("ignore")
        res = {}
        for opt in (True, False):
            res[opt] = (md.compute_angles(traj, gen.index_variant(T, case.get("idxv", 0)), periodic=periodic, opt=opt),
                        md.compute_dihedrals(traj, gen.index_variant(Q, case.get("idxv", 0)), periodic=periodic, opt=opt))
        revA = md.compute_angles(traj, T[:, ::-1], periodic=periodic)
        revD = md.compute_dihedrals(traj, Q[:, ::-1], periodic=periodic)
        mirD = None
        if cells is None or all(gen.is_ortho(c) for c in cells):
            xm = traj.xyz.copy()
            xm[:, :, 2] *= -1
            tm = gen.make_traj(xm, cells, top=traj.topology)
            mirD = md.compute_dihedrals(tm, Q, periodic=periodic)
    ortho_cell = [True] * nf if cells is None else [bool(np.allclose(np.asarray(H_) - np.diag(np.diag(H_)), 0.0, atol=1e-9)) for H_ in Hs]
    for opt in (True, False):
        A, D = res[opt]
        tag = "opt" if opt else "ref"
        if A.shape != (nf, len(T)) or D.shape != (nf, len(Q)):
            viol.append((tag + "/shape", "%s %s" % (A.shape, D.shape)))
            continue
        for f in range(nf):
            H = Hs[f] if use_cell else None
            # ---- angles
            u, lu, w = _vec(x[f, T[:, 0]] - x[f, T[:, 1]], H)
            v, lv, _w = _vec(x[f, T[:, 2]] - x[f, T[:, 1]], H)
            # (every leg length counts: the minimum image is unique unless two images are equally short; those legs are left out)
            # (as in C05: in a rectangular cell the kernels give the nearest image for every separation; in a skewed one only
            # below half the smallest cell width - beyond it the two code paths must still agree, see below)
            tmar = 64 * oracle.EPS32 * (xmax + cmax + 1) + 1e-5
            lim = np.inf if (H is None or ortho_cell[f]) else 0.499 * w
            ok = (lu > 0) & (lv > 0) & (lu < lim) & (lv < lim) & ~_tie(u, H, tmar) & ~_tie(v, H, tmar)
            if use_cell and ok.any():
                plain = np.linalg.norm(x[f, T[:, 0]] - x[f, T[:, 1]], axis=1)
                if (np.abs(plain - lu)[ok] > 1e-3).any():
                    crossing = True
            th = oracle.angle(u, v)
            lmin = np.minimum(lu, lv)
            d = 16 * oracle.EPS32 * (xmax + cmax + 1) / np.maximum(lmin, 1e-9)
            sin = np.sin(th)
            tol = 4 * np.minimum(d / np.maximum(sin, 1e-12), np.sqrt(2 * d)) + 2e-6
            got = A[f].astype(np.float64)
            bad = ok & ~(np.isfinite(got) & (got >= 0) & (got <= math.pi + 1e-6) & (np.abs(got - th) <= tol))
            if (sin[ok] < 0.05).any():
                small_sin = True
            if bad.any():
                i = int(np.argmax(bad))
                viol.append((tag + "/angle", "frame %d triplet %s: got %.7f, definition %.7f (tol %.2g)" % (f, T[i].tolist(), got[i], th[i], tol[i])))
            # reversal
            if opt and ok.any() and (np.abs(revA[f] - A[f])[ok] > 2 * tol[ok]).any():
                viol.append(("angle/reversal", "angle(i,j,k) != angle(k,j,i), max diff %.3g" % float(np.abs(revA[f] - A[f])[ok].max())))
            # ---- dihedrals
            b1, l1, w = _vec(x[f, Q[:, 1]] - x[f, Q[:, 0]], H)
            b2, l2, _w = _vec(x[f, Q[:, 2]] - x[f, Q[:, 1]], H)
            b3, l3, _w = _vec(x[f, Q[:, 3]] - x[f, Q[:, 2]], H)
            okq = (l1 > 0) & (l2 > 0) & (l3 > 0) & (l1 < lim) & (l2 < lim) & (l3 < lim) & ~_tie(b1, H, tmar) & ~_tie(b2, H, tmar) & ~_tie(b3, H, tmar)
            phi = oracle.dihedral(b1, b2, b3)
            s1 = np.sin(oracle.angle(-b1, b2))
            s2 = np.sin(oracle.angle(-b2, b3))
            smin = np.minimum(s1, s2)
            lq = np.minimum(np.minimum(l1, l2), l3)
            dq = 16 * oracle.EPS32 * (xmax + cmax + 1) / np.maximum(lq, 1e-9)
            tolq = 4 * dq / np.maximum(smin, 1e-12) + 4e-6
            gotd = D[f].astype(np.float64)
            rng_ok = np.isfinite(gotd) & (gotd >= -math.pi - 1e-6) & (gotd <= math.pi + 1e-6)
            if not rng_ok[okq].all():
                i = int(np.argmax(okq & ~rng_ok))
                viol.append((tag + "/dihedral-range", "quartet %s: %r not in [-pi, pi]" % (Q[i].tolist(), gotd[i])))
            well = okq & (smin >= 1e-3) & (tolq < 0.5)
            if (okq & (smin < 1e-3)).any():
                labels.append("ill-conditioned-quartet")
            if (smin[okq] < 0.05).any():
                small_sin = True
            diff = np.abs((gotd - phi + math.pi) % (2 * math.pi) - math.pi)
            badq = well & ~(diff <= tolq)
            if badq.any():
                i = int(np.argmax(badq))
                viol.append((tag + "/dihedral", "frame %d quartet %s: got %.7f, IUPAC definition %.7f (tol %.2g)" % (f, Q[i].tolist(), gotd[i], phi[i], tolq[i])))
            if opt and well.any():
                dr = np.abs((revD[f] - D[f] + math.pi) % (2 * math.pi) - math.pi)
                if (dr[well] > 2 * tolq[well]).any():
                    viol.append(("dihedral/reversal", "dihedral(i,j,k,l) != dihedral(l,k,j,i), max diff %.3g" % float(dr[well].max())))
                if mirD is not None:
                    dm = np.abs((mirD[f] + D[f] + math.pi) % (2 * math.pi) - math.pi)
                    if (dm[well] > 2 * tolq[well]).any():
                        viol.append(("dihedral/mirror", "mirroring did not negate the dihedral, max |d'+d| %.3g" % float(dm[well].max())))
    if True in res and False in res and res[True][0].shape == res[False][0].shape and res[True][1].shape == res[False][1].shape:
        # the optimised and the reference path agree - also for legs beyond half the smallest width of a skewed cell, where both
        # run the same fold + neighbouring-image search; legs sitting on a wrap tie (a fractional coordinate of one half, decided
        # by rounding) or with two equally short images, and ill-conditioned angles, are left out
        from props.c05 import _wrap_tie
        for f in range(nf):
            H = Hs[f] if use_cell else None

            def shaky(d):
                if H is None:
                    return np.zeros(len(d), dtype=bool)
                vv = oracle.mic(d, H)[0]
                return _wrap_tie(d, H) | _tie(vv, H, 1e-3)
            if H is not None and periodic:
                # ... and moving atoms by whole cell vectors changes nothing (whatever image the kernels pick for a long leg, they
                # pick it from the displacement folded into the cell, which a lattice translation does not alter)
                if f == 0:
                    srng = np.random.Generator(np.random.PCG64(case["seed"] + 5))
                    shifted = traj.xyz.astype(np.float64).copy()
                    for f_ in range(nf):
                        shifted[f_] += srng.integers(-2, 3, (n, 3)) @ Hs[f_]
                    t_sh = gen.make_traj(shifted.astype(np.float32), cells, top=traj.topology)
                    with warnings.catch_warnings():
                        warnings.simplefilter("ignore")
                        sh_res = (md.compute_angles(t_sh, T, periodic=True), md.compute_dihedrals(t_sh, Q, periodic=True))
                    labels.append("lattice-shifted-copy")
            dA = [x[f, T[:, 0]] - x[f, T[:, 1]], x[f, T[:, 2]] - x[f, T[:, 1]]]
            a_o, a_r = res[True][0][f].astype(np.float64), res[False][0][f].astype(np.float64)
            # (leg lengths: of the minimum-image vectors - two atoms may sit almost on top of each other's images)
            lA = [oracle.mic(d_, H)[1] if H is not None else np.linalg.norm(d_, axis=1) for d_ in dA]
            cmp_a = ~shaky(dA[0]) & ~shaky(dA[1]) & (np.sin(a_r) > 0.05) & (lA[0] > 1e-2) & (lA[1] > 1e-2)
            if (cmp_a & ~(np.abs(a_o - a_r) <= 2e-3)).any():
                i = int(np.argmax(cmp_a & ~(np.abs(a_o - a_r) <= 2e-3)))
                viol.append(("opt-vs-ref/angle", "frame %d triplet %s: optimised path %.6f, reference path %.6f" % (f, T[i].tolist(), a_o[i], a_r[i])))
            if H is not None and periodic:
                a_s = sh_res[0][f].astype(np.float64)
                stol = 2e-3 + 64 * oracle.EPS32 * (xmax + 3 * cmax + 1) / np.maximum(np.minimum(lA[0], lA[1]), 1e-2) / 0.05
                if (cmp_a & ~(np.abs(a_s - a_o) <= stol)).any():
                    i = int(np.argmax(cmp_a & ~(np.abs(a_s - a_o) <= stol)))
                    viol.append(("lattice-shift/angle", "frame %d triplet %s: %.6f, after moving the atoms by cell vectors %.6f" % (f, T[i].tolist(), a_o[i], a_s[i])))
            dQ = [x[f, Q[:, 1]] - x[f, Q[:, 0]], x[f, Q[:, 2]] - x[f, Q[:, 1]], x[f, Q[:, 3]] - x[f, Q[:, 2]]]
            d_o, d_r = res[True][1][f].astype(np.float64), res[False][1][f].astype(np.float64)
            if len(Q):
                vq = [oracle.mic(d, H)[0] if H is not None else d for d in dQ]
                sm = np.minimum(np.sin(oracle.angle(-vq[0], vq[1])), np.sin(oracle.angle(-vq[1], vq[2])))
                cmp_q = ~shaky(dQ[0]) & ~shaky(dQ[1]) & ~shaky(dQ[2]) & (sm > 0.05) & np.all([np.linalg.norm(v_, axis=1) > 1e-2 for v_ in vq], axis=0)
                dd_ = np.abs((d_o - d_r + math.pi) % (2 * math.pi) - math.pi)
                if (cmp_q & ~(dd_ <= 5e-3)).any():
                    i = int(np.argmax(cmp_q & ~(dd_ <= 5e-3)))
                    viol.append(("opt-vs-ref/dihedral", "frame %d quartet %s: optimised path %.6f, reference path %.6f" % (f, Q[i].tolist(), d_o[i], d_r[i])))
    if use_cell:
        labels.append("periodic")
    if crossing:
        labels.append("bond-crosses-face")
    if small_sin:
        labels.append("sin<0.05")
    return {"viol": viol, "labels": labels, "nontrivial": bool((use_cell and crossing) or small_sin)}


# ------------------------------------------------------------------------------------------------------------------ named torsions

def _run_peptide(case):
    import mdtraj as md
    from mdtraj.core import element as elem
    viol, labels = [], ["peptide"]
    top = md.Topology()
    layout = []   # per chain: list of (residue index, {name: atom index})
    ai = 0
    ri = 0
    for residues in case["chains"]:
        ch = top.add_chain()
        cl = []
        for name, atoms in residues:
            r = top.add_residue(name, ch)
            d = {}
            for a in atoms:
                el = {"C": elem.carbon, "N": elem.nitrogen, "O": elem.oxygen, "S": elem.sulfur}[a[0]]
                top.add_atom(a, el, r)
                d[a] = ai
                ai += 1
            cl.append((ri, d))
            ri += 1
        layout.append(cl)
    n = ai
    rng = np.random.Generator(np.random.PCG64(case["seed"]))
    xyz = rng.normal(0, 1.0, (case["nf"], n, 3)).astype(np.float32)
    traj = md.Trajectory(xyz, top)
    if case.get("pcell"):
        traj.unitcell_lengths = np.tile([2.5, 2.75, 3.0], (case["nf"], 1))
        traj.unitcell_angles = np.tile([90.0, 90.0, 90.0] if case["pcell"] == "ortho" else [75.0, 85.0, 100.0], (case["nf"], 1))
        labels.append("peptide-cell:" + case["pcell"])
    fkw = {} if not case.get("pflags") else {"periodic": case["pflags"][0], "opt": case["pflags"][1]}
    if fkw:
        labels.append("peptide-flags:%s" % case["pflags"])

    if case.get("rename_between") is not None:
        with warnings.catch_warnings():
            warnings.simplefilter("ignore")
            for nm_ in ("phi", "psi", "omega", "chi1", "chi2"):
                getattr(md, "compute_" + nm_)(traj)              # whatever this computes or remembers ...
        flat = [(r_, d_) for cl_ in layout for r_, d_ in cl_]
        r_, d_ = flat[case["rename_between"] % len(flat)]
        old_ = next((nm_ for nm_ in ("N", "CD", "CG", "C", "CA") if nm_ in d_), None)
        if old_ is not None:
            top.atom(d_[old_]).name = old_ + "X"                   # ... the atom is then renamed on the very same object
            d_[old_ + "X"] = d_.pop(old_)
            labels.append("renamed-between-calls")

    def expected(pattern, offsets):
        out = []
        for cl in layout:
            byidx = {r: d for r, d in cl}
            for r, d in cl:
                rows = []
                for nm, off in zip(pattern, offsets):
                    dd = byidx.get(r + off)
                    if dd is None or nm not in dd:
                        rows = None
                        break
                    rows.append(dd[nm])
                if rows is not None:
                    out.append((r, rows))
        return out

    exp = {
        "phi": expected(["C", "N", "CA", "C"], [-1, 0, 0, 0]),
        "psi": expected(["N", "CA", "C", "N"], [0, 0, 0, 1]),
        "omega": expected(["CA", "C", "N", "CA"], [0, 0, 1, 1]),
    }
    for k, pats in CHI.items():
        rows = []
        for p in pats:
            rows += expected(p, [0, 0, 0, 0])
        rows.sort(key=lambda t: t[0])
        exp["chi%d" % k] = rows
    with warnings.catch_warnings():
        warnings.simplefilter("ignore")
        for name, rows in exp.items():
            idx, vals = getattr(md, "compute_" + name)(traj, **fkw)
            want = np.array([r for _ri, r in rows], dtype=np.int64).reshape(-1, 4)
            got = np.asarray(idx, dtype=np.int64).reshape(-1, 4)
            if got.shape != want.shape or not np.array_equal(got, want):
                # per-residue order may legitimately differ only if one residue matches two patterns (never with these templates)
                viol.append(("named/%s/indices" % name, "got %s expected %s" % (got.tolist()[:6], want.tolist()[:6])))
                continue
            if len(want) == 0:
                if np.asarray(vals).shape != (case["nf"], 0):
                    viol.append(("named/%s/empty-shape" % name, str(np.asarray(vals).shape)))
                continue
            direct = md.compute_dihedrals(traj, want, **fkw)
            d_ = np.abs((np.asarray(vals, dtype=np.float64) - direct + np.pi) % (2 * np.pi) - np.pi) if vals.shape == direct.shape else None
            if d_ is None or (d_ > 1e-6).any():
                viol.append(("named/%s/values" % name, "values differ from compute_dihedrals on the same quartets"))
    nres = sum(len(c) for c in case["chains"])
    nontrivial = len(case["chains"]) > 1 or any(nm in ("HOH", "LIG") for c in case["chains"] for nm, _a in c) or \
        any(nm in TEMPLATES and len(a) < 4 + len(TEMPLATES[nm]) for c in case["chains"] for nm, a in c)
    labels.append("chains:%d" % len(case["chains"]))
    return {"viol": viol, "labels": labels, "nontrivial": bool(nontrivial and nres >= 2)}


TECHNIQUE = "property-based testing (Hypothesis) against float64 atan2 definitions on exact minimum-image vectors + metamorphic laws; independent index walk for named torsions"
LEVEL_TEXT = ("Generated chain-like structures (near-collinear, near-planar, scattered over periodic images in every cell type) are evaluated by "
              "compute_angles / compute_dihedrals on both code paths and compared with float64 definitions under a conditioning-aware "
              "tolerance; reversal and mirror laws are asserted; phi/psi/omega/chi1-5 index sets and values are compared with an "
              "independent walk over generated peptide topologies with breaks, missing atoms and several chains.")
LEVEL_NOTE = "Trusts the C05 minimum-image oracle and numpy float64; tolerances stated in assumptions."
