"""C17 - unit-cell lengths/angles and box vectors describe the same cell (model-based histories)."""
import math
import os
import warnings

import numpy as np
from hypothesis import strategies as st

from vlib import files, gen, oracle

ID = "C17"
RULE = ("case = (n_frames, n_atoms, history of <=10 operations from {set vectors from a rotated/unrotated description, set lengths+"
        "angles, set only the angles or only the lengths of a complete cell, set None (whole / lengths only / angles only), index/slice, join, stack, atom_slice, save+load in a cell-storing "
        "format}); cells: lengths 0.1-50 nm, special angles 60/90/109.47/120, general 45-135deg, near-degenerate (volume factor "
        "down to 1e-3), per-frame variation; oracle = float64 model of (lengths, angles) per frame + geometric identities of the "
        "reported vectors (norms, mutual angles, a||x, b in xy, positive volume, det = abc*sqrt(1-sum cos^2+2 prod cos)); "
        "non-trivial = three distinct angles and (a rotated description or >=2 assignments)")
RULE += ('; widened: the save+load step also covers rst7 / ncrst (numbered files per frame) and dtr; vector descriptions mirrored, axes-permuted or upper-triangular')
QUICK = {"examples": 400, "shards": 12, "budget_s": 100}
THOROUGH = {"examples": 8000, "shards": 16, "budget_s": 1500}
ASSUMPTIONS = ["angle tolerance 3e-4 deg + the effect of mdtraj's documented snap of |component| < 1e-6 nm to zero; lengths 4e-6 relative",
               "after save+load the model is re-based on the loaded values (format precision is C01's subject); only completeness "
               "and closeness (2e-3 relative, 0.02 deg) are asserted there"]
SAVE_FMTS = ["h5", "xtc", "trr", "dcd", "nc", "gro", "lammpstrj", "pdb", "rst7", "ncrst", "dtr"]
WHERE = {}


@st.composite
def _cell(draw):
    kind = draw(st.sampled_from(["ortho", "special", "special", "tric", "tric", "neardeg", "needle"]))
    L = [math.exp(draw(st.floats(math.log(0.1), math.log(50.0)))) for _ in range(3)]
    if kind == "ortho":
        A = [90.0, 90.0, 90.0]
    elif kind == "special":
        A = draw(st.sampled_from([[60.0, 90.0, 90.0], [90.0, 90.0, 120.0], [90.0, 90.0, 60.0], [gen.TO, gen.TO, gen.TO],
                                  [60.0, 60.0, 90.0], [60.0, 60.0, 60.0], [90.0, 120.0, 90.0], [70.0, 80.0, 100.0],
                                  # the three monoclinic settings (one oblique angle: alpha, beta or gamma)
                                  [75.0, 90.0, 90.0], [110.0, 90.0, 90.0], [90.0, 75.0, 90.0], [90.0, 90.0, 105.0]]))
        if A[0] == gen.TO or A == [60.0, 60.0, 60.0]:
            L = [L[0]] * 3
    elif kind == "tric":
        A = gen._fix_angles(*[draw(st.floats(45, 135)) for _ in range(3)], margin=0.02)
    elif kind == "needle":
        # three small angles (4-6.2 degrees: each below the sum and above the difference of the other two): a valid, very acute cell
        A = [draw(st.floats(4.0, 6.2)) for _ in range(3)]
    else:
        # near-degenerate: gamma close to alpha+beta (flat cell), pulled back until the volume factor exceeds 1e-3
        al, be = draw(st.floats(40, 80)), draw(st.floats(40, 80))
        ga = al + be - draw(st.floats(0.01, 1.0))
        A = gen._fix_angles(al, be, ga, margin=1e-3)
    return {"kind": kind, "L": [float(np.float32(x)) for x in L], "A": [float(np.float32(x)) for x in A],
            "vary": draw(st.sampled_from([0.0, 0.0, 0.01]))}


@st.composite
def strategy(draw, tier="quick"):
    nf = draw(st.integers(1, 6))
    na = draw(st.sampled_from([3, 10, 12]))
    ops = []
    nops = draw(st.integers(1, 10))
    for _ in range(nops):
        name = draw(st.sampled_from(["set_vec", "set_vec", "set_vec", "set_la", "set_la", "set_a_only", "set_l_only", "none_vec", "none_la", "none_l", "none_a",
                                     "slice", "slice", "join", "stack", "atom_slice", "saveload", "saveload", "saveload"]))
        if name == "set_vec":
            ops.append([name, draw(_cell()), draw(st.one_of(st.none(), st.integers(0, 2 ** 31)))])
        elif name in ("set_la", "set_a_only", "set_l_only"):
            ops.append([name, draw(_cell())])
        elif name == "slice":
            ops.append([name, draw(st.sampled_from(["int", "neg", "slice", "rev", "list", "mask"])), draw(st.integers(0, 1000))])
        elif name == "saveload":
            ops.append([name, draw(st.sampled_from(SAVE_FMTS))])
        elif name == "join":
            ops.append([name, draw(st.one_of(st.none(), _cell())), draw(st.booleans())])     # cell of the other operand, other.join(self)?
        else:
            ops.append([name])
    return {"nf": nf, "na": na, "ops": ops, "first": draw(_cell())}


def _per_frame(c, n):
    L = np.array([[x * (1 + c["vary"] * f) for x in c["L"]] for f in range(n)], dtype=np.float64)
    A = np.tile(np.array(c["A"], dtype=np.float64), (n, 1))
    return L, A


def _vectors(L, A):
    return np.array([gen.box_vectors(L[f], A[f]) for f in range(len(L))])


def _check_state(t, mL, mA, viol, tag, rel=4e-6, adeg=3e-4):
    """real trajectory against the model (mL / mA: arrays or None)"""
    rL, rA = t.unitcell_lengths, t.unitcell_angles
    complete = mL is not None and mA is not None
    if (rL is not None and rA is not None) != complete:
        viol.append((tag + "/presence", "lengths %s/%s angles %s/%s (real/model)" % (rL is not None, mL is not None, rA is not None, mA is not None)))
        return
    if not complete:
        # a half-set cell is not a cell: which half survives an operation is not specified, only that no complete
        # cell appears (checked above) and that vectors / volumes are absent (checked below)
        mL, mA = (None if rL is None else mL), (None if rA is None else mA)
    for nm, r, m_ in (("lengths", rL, mL), ("angles", rA, mA)):
        if m_ is None:
            continue
        if r.shape != (t.n_frames, 3) or m_.shape != r.shape:
            viol.append((tag + "/shape", "%s shape %s, model %s, n_frames %d" % (nm, r.shape, m_.shape, t.n_frames)))
            return
    v = t.unitcell_vectors
    if (v is not None) != complete:
        viol.append((tag + "/vectors-presence", "unitcell_vectors %s although cell complete=%s" % ("present" if v is not None else "None", complete)))
        return
    vol = t.unitcell_volumes
    if (vol is not None) != complete:
        viol.append((tag + "/volumes-presence", "unitcell_volumes %s although cell complete=%s" % ("present" if vol is not None else "None", complete)))
        return
    if mL is not None:
        if not np.allclose(rL, mL, rtol=rel, atol=1e-7):
            viol.append((tag + "/lengths", "real %s model %s" % (np.asarray(rL)[0], mL[0])))
            return
    if mA is not None:
        snap = np.degrees(1.5e-6 / (mL.min() if mL is not None else 0.1))
        if not np.allclose(rA, mA, rtol=0, atol=adeg + snap):
            viol.append((tag + "/angles", "real %s model %s" % (np.asarray(rA)[0], mA[0])))
            return
    if not complete:
        return
    v = np.asarray(v, dtype=np.float64)
    if v.shape != (t.n_frames, 3, 3):
        viol.append((tag + "/vectors-shape", str(v.shape)))
        return
    for f in range(t.n_frames):
        a, b, c = v[f]
        L, A = mL[f], mA[f]
        snap = 1.5e-6
        ltol = rel * L.max() + 2 * snap
        norms = np.array([np.linalg.norm(a), np.linalg.norm(b), np.linalg.norm(c)])
        if (~(np.abs(norms - L) <= ltol)).any():
            viol.append((tag + "/vector-norms", "frame %d norms %s lengths %s" % (f, norms, L)))
            return
        ang = np.degrees([oracle.angle(b, c), oracle.angle(c, a), oracle.angle(a, b)])
        atol = adeg + np.degrees(3 * snap / L.min())
        if (~(np.abs(ang - A) <= atol)).any():
            viol.append((tag + "/vector-angles", "frame %d angles between vectors %s stored %s" % (f, ang, A)))
            return
        if abs(a[1]) > snap or abs(a[2]) > snap or abs(b[2]) > snap or a[0] <= 0 or b[1] <= 0:
            viol.append((tag + "/orientation", "frame %d a=%s b=%s not in standard orientation" % (f, a, b)))
            return
        det = float(np.linalg.det(v[f]))
        ca, cb, cg = np.cos(np.radians(A))
        expv = L[0] * L[1] * L[2] * math.sqrt(max(1 - ca * ca - cb * cb - cg * cg + 2 * ca * cb * cg, 0.0))
        scale = L[0] * L[1] * L[2]
        if det <= 0:
            viol.append((tag + "/volume-sign", "frame %d det %.6g" % (f, det)))
            return
        # the conditioning of the volume w.r.t. float32 angles grows as 1/vol-factor: tolerance in units of abc
        vf = max(expv / scale, 1e-3)
        if abs(vol[f] - det) > 2e-6 * scale + 1e-12 or abs(det - expv) > scale * (2e-5 + 2e-6 / vf + 6 * snap / L.min()):
            viol.append((tag + "/volume", "frame %d unitcell_volumes %.9g det %.9g formula %.9g" % (f, vol[f], det, expv)))
            return


def run_case(case):
    import mdtraj as md
    viol, labels = [], []
    nf, na = case["nf"], case["na"]
    rng = np.random.Generator(np.random.PCG64(7))
    t = files.file_traj(nf, na, None, 1, time="offset")
    mL, mA = _per_frame(case["first"], nf)
    t.unitcell_lengths = mL
    t.unitcell_angles = mA
    mL = mL.astype(np.float32).astype(np.float64)
    mA = mA.astype(np.float32).astype(np.float64)
    n_assign, rotated, distinct = 1, False, len(set(case["first"]["A"])) == 3
    with warnings.catch_warnings():
        warnings.simplefilter("ignore")
        _check_state(t, mL, mA, viol, "init")
        for op in case["ops"]:
            if viol:
                break
            name = op[0]
            tag = name
            n = t.n_frames
            if name == "set_vec":
                L, A = _per_frame(op[1], n)
                H = _vectors(L, A)
                mirrored = False
                if op[2] is not None:
                    R = oracle.random_rotation(np.random.Generator(np.random.PCG64(op[2])))
                    if op[2] % 4 == 2:
                        # an exact axis permutation / quarter turn: the description keeps its zeros, in other places (c along x,
                        # b in the xz plane, an upper-triangular instead of a lower-triangular matrix, ...)
                        R = oracle.cube_rotations()[(op[2] // 4) % 24]
                        tag = "set_vec-axes-permuted"
                        if (op[2] // 4) % 2:
                            # ... or the other conventional orientation: c along z, b in the yz plane (upper-triangular matrix),
                            # with exact zeros where the standard orientation has numbers
                            Hn = []
                            for Hf in H:
                                e3 = Hf[2] / np.linalg.norm(Hf[2])
                                e2 = Hf[1] - (Hf[1] @ e3) * e3
                                e2 /= np.linalg.norm(e2)
                                e1 = np.cross(e2, e3)
                                Hu = Hf @ np.stack([e1, e2, e3], 1)
                                Hu[1, 0] = Hu[2, 0] = Hu[2, 1] = 0.0
                                Hn.append(Hu)
                            H = np.array(Hn)
                            R = np.eye(3)
                    H = H @ R.T
                    rotated = True
                    tag = "set_vec-rotated" if tag != "set_vec-axes-permuted" else tag
                    if op[2] % 4 == 3:
                        # the same cell described in a left-handed frame (mirror image): lengths and angles depend on the Gram
                        # matrix only, so they are those of the cell; refusing such input with an error is accepted
                        H = H * np.array([1.0, 1.0, -1.0])
                        mirrored = True
                        tag = "set_vec-mirrored"
                if mirrored:
                    try:
                        t.unitcell_vectors = H
                    except (ValueError, TypeError) as e:
                        labels.append("mirrored-vectors-refused")
                        continue
                else:
                    t.unitcell_vectors = H
                mL, mA = L, A
                n_assign += 1
                distinct = distinct or len(set(op[1]["A"])) == 3
                labels.append("cell:" + op[1]["kind"])
            elif name == "set_la":
                L, A = _per_frame(op[1], n)
                t.unitcell_lengths = L
                t.unitcell_angles = A
                mL = L.astype(np.float32).astype(np.float64)
                mA = A.astype(np.float32).astype(np.float64)
                n_assign += 1
                distinct = distinct or len(set(op[1]["A"])) == 3
                labels.append("cell:" + op[1]["kind"])
            elif name in ("set_a_only", "set_l_only"):
                # assign just one of the two arrays of a complete cell (the other keeps its values)
                if mL is None or mA is None:
                    continue
                L, A = _per_frame(op[1], n)
                if name == "set_a_only":
                    t.unitcell_angles = A
                    mA = A.astype(np.float32).astype(np.float64)
                else:
                    t.unitcell_lengths = L
                    mL = L.astype(np.float32).astype(np.float64)
                n_assign += 1
                distinct = distinct or len(set(op[1]["A"])) == 3
            elif name == "none_vec":
                t.unitcell_vectors = None
                mL = mA = None
            elif name == "none_la":
                t.unitcell_lengths = None
                t.unitcell_angles = None
                mL = mA = None
            elif name == "none_l":
                t.unitcell_lengths = None
                mL = None
                labels.append("half-set")
            elif name == "none_a":
                t.unitcell_angles = None
                mA = None
                labels.append("half-set")
            elif name == "slice":
                kind, r = op[1], op[2]
                if kind == "int":
                    key = r % n
                    mk = slice(key, key + 1)
                elif kind == "neg":
                    key = -(r % n) - 1
                    mk = [key]
                elif kind == "slice":
                    lo = r % n
                    key = mk = slice(lo, n, 1 + r % 2)
                elif kind == "rev":
                    key = mk = slice(None, None, -1)
                elif kind == "list":
                    key = mk = [(r + 3 * i) % n for i in range(1 + r % 3)]
                else:
                    key = mk = np.array([(r >> i) & 1 == 1 for i in range(n)]) | (np.arange(n) == r % n)
                t = t[key]
                mL = None if mL is None else mL[mk]
                mA = None if mA is None else mA[mk]
                tag = "slice-" + kind
            elif name == "join":
                other = md.Trajectory(t.xyz.copy(), t.topology, time=t.time + 100)
                oL = oA = None
                if op[1] is not None:
                    oL, oA = _per_frame(op[1], n)
                    other.unitcell_lengths, other.unitcell_angles = oL, oA
                    oL = oL.astype(np.float32).astype(np.float64)
                    oA = oA.astype(np.float32).astype(np.float64)
                complete_self = mL is not None and mA is not None
                complete_other = oL is not None
                swapped = len(op) > 2 and bool(op[2])
                try:
                    t2 = other.join(t) if swapped else t.join(other)
                except Exception as e:
                    if complete_self == complete_other and (mL is None) == (mA is None):
                        viol.append(("join/raised", "join of two trajectories with equal cell presence raised %s" % type(e).__name__))
                    else:
                        labels.append("join-refused-mixed")
                    continue
                if complete_self != complete_other or (mL is None) != (mA is None):
                    # mixing cell presence is refused or yields no complete cell - never a fabricated one
                    if t2.unitcell_vectors is not None and t2.unitcell_lengths is not None and len(t2.unitcell_lengths) == t2.n_frames \
                            and not (complete_self and complete_other):
                        viol.append(("join/fabricated-cell", "joined trajectory has a complete cell although one input had none"))
                    # one operand with a complete cell, the other with none at all: no output can have a complete per-frame cell
                    # without inventing one, and an output without loses the cell an input had - only a refusal is consistent
                    bare_self = mL is None and mA is None
                    if (complete_self and not complete_other) or (bare_self and complete_other):
                        if t2.unitcell_lengths is None or t2.unitcell_angles is None:
                            viol.append(("join/cell-dropped", "%s: accepted, and the result has no unit cell although one input had a complete one" % (
                                "bare.join(boxed)" if (bare_self != swapped) else "boxed.join(bare)")))
                    t = t2
                    mL = None if t.unitcell_lengths is None else np.asarray(t.unitcell_lengths, dtype=np.float64)
                    mA = None if t.unitcell_angles is None else np.asarray(t.unitcell_angles, dtype=np.float64)
                    continue
                t = t2
                mL = None if mL is None else (np.concatenate([oL, mL]) if swapped else np.concatenate([mL, oL]))
                mA = None if mA is None else (np.concatenate([oA, mA]) if swapped else np.concatenate([mA, oA]))
            elif name == "stack":
                other = md.Trajectory(t.xyz.copy() + 1.0, t.topology.copy(), time=t.time.copy())
                t = t.stack(other)
            elif name == "atom_slice":
                if t.n_atoms > 1:
                    t = t.atom_slice(np.arange(0, t.n_atoms, 2))
            elif name == "saveload":
                fmt = op[1]
                complete = mL is not None and mA is not None
                if complete and fmt in ("pdb",) and n > 1 and not (np.allclose(mL, mL[0]) and np.allclose(mA, mA[0])):
                    labels.append("skip-pdb-varying")   # one CRYST1 record per file: cannot represent a varying cell
                    continue
                if complete and fmt == "pdb" and (t.xyz.max() > 900 or mL.max() > 900):
                    continue
                if complete and fmt == "pdb":
                    # load_pdb documents that a CRYST1 record implying more than 1000 atoms per nm^3 is taken for a dummy and
                    # discarded: such cells are not representable through the default loader
                    vol0 = abs(float(np.linalg.det(gen.box_vectors(mL[0], mA[0]))))
                    if t.n_atoms / max(vol0, 1e-12) > 500:
                        labels.append("skip-pdb-dummy-cell-heuristic")
                        continue
                if fmt in ("lammpstrj", "dtr") and not complete:
                    continue
                if fmt == "rst7" and complete and t.n_atoms <= 2:
                    # a one-line coordinate block followed by one more line is ambiguous in the Amber restart format (velocities
                    # or box); the reader documents a heuristic for it (box if a number is >= 60), so small cells with small angles
                    # are not representable for two atoms
                    labels.append("skip-rst7-two-atom-ambiguity")
                    continue
                if fmt == "dtr" and n > 1 and not np.all(np.diff(t.time) > 0):
                    labels.append("skip-dtr-times-not-ascending")   # the DTR writer documents and enforces ascending times
                    continue
                with files.scratch() as d:
                    fn = os.path.join(d, "c." + fmt)
                    try:
                        t.save(fn)
                    except Exception as e:
                        if complete or (mL is None and mA is None):
                            viol.append(("saveload-%s/save-raised" % fmt, "%s: %s" % (type(e).__name__, str(e)[:160])))
                        else:
                            labels.append("half-set-save-refused")
                        continue
                    if fmt in ("rst7", "ncrst"):
                        # one numbered restart file per frame: c.rst7.1 ... c.rst7.N (zero padded to equal width)
                        w = len(str(n))
                        ld = md.load_restrt if fmt == "rst7" else md.load_ncrestrt
                        if n > 1:
                            parts = [ld("%s.%0*d" % (fn, w, i + 1), top=t.topology) for i in range(n)]
                            t2 = md.join(parts, check_topology=False)
                            labels.append("numbered-restart-files")
                        else:
                            t2 = ld(fn, top=t.topology)
                    else:
                        t2 = files.load(fn, fmt, t.topology)
                got = t2.unitcell_lengths is not None and t2.unitcell_angles is not None
                if got != complete:
                    viol.append(("saveload-%s/completeness" % fmt, "input complete=%s, loaded complete=%s" % (complete, got)))
                    continue
                if complete:
                    if not np.allclose(t2.unitcell_lengths, mL, rtol=2e-3, atol=2e-3) or not np.allclose(t2.unitcell_angles, mA, atol=0.02):
                        viol.append(("saveload-%s/values" % fmt, "loaded %s %s model %s %s" % (t2.unitcell_lengths[0], t2.unitcell_angles[0], mL[0], mA[0])))
                        continue
                    mL = np.asarray(t2.unitcell_lengths, dtype=np.float64)
                    mA = np.asarray(t2.unitcell_angles, dtype=np.float64)
                else:
                    mL = mA = None
                t = t2
                tag = "saveload-" + fmt
            if not viol:
                _check_state(t, mL, mA, viol, tag)
    labels.append("ops:%d" % min(len(case["ops"]), 10))
    if rotated:
        labels.append("rotated")
    return {"viol": viol, "labels": labels, "nontrivial": bool(distinct and (rotated or n_assign >= 2))}


TECHNIQUE = "model-based property testing (Hypothesis): histories of cell assignments/transformations vs a float64 model and geometric identities"
LEVEL_TEXT = ("Generated histories of unit-cell assignments (rotated vector descriptions, lengths+angles, None), slicing, joining, "
              "stacking, atom slicing and save/load are run against a float64 model of per-frame lengths/angles; after every step the "
              "reported vectors are checked for norms, mutual angles, standard orientation, positive volume and the closed-form volume.")
LEVEL_NOTE = "Trusts numpy linear algebra in float64 and the textbook lengths/angles->vectors formula used for generating rotated descriptions."
