"""C05 - periodic distances / displacements are true minimum-image values."""
import numpy as np
from hypothesis import strategies as st

from vlib import gen, oracle

ID = "C05"
RULE = ("case = (1-4 frames, 2-16 atoms, per-frame cell from {none,cubic,ortho,monoclinic,hex,trunc.oct,rhombic dod.,"
        "triclinic 45-135deg ratio<=6}, placement class inside/spread(+-1,3,8 cells)/faces/clustered, pair list, periodic, "
        "optional unreduced vector description, time pairs); oracle = float64 exhaustive lattice search on a reduced basis; "
        "non-trivial = cell present AND periodic AND (non-orthorhombic OR atoms outside the cell OR varying cell); "
        "distinct = different canonical JSON of the case")
QUICK = {"examples": 500, "shards": 12, "budget_s": 70}
THOROUGH = {"examples": 6000, "shards": 16, "budget_s": 1200}
ASSUMPTIONS = ["box vectors for the oracle are recomputed in float64 from the float32 lengths/angles the trajectory stores",
               "tolerance 8*eps32*(1+|x|max) + 4*eps32*|cell|; upper bound only asserted for orthorhombic cells and, in skewed "
               "cells, when the true minimum is below half the smallest cell width (the property's range)"]


@st.composite
def strategy(draw, tier="quick"):
    nf = draw(st.integers(1, 4))
    cells = draw(gen.cells(nf, kinds=gen.KINDS_GEOMETRY))
    cp = draw(gen.coord_params(max_atoms=16))
    n = cp["n"]
    npairs = draw(st.integers(0, 24))
    pairs = [[draw(st.integers(0, n - 1)), draw(st.integers(0, n - 1))] for _ in range(npairs)]
    if npairs and draw(st.booleans()):
        pairs.append(pairs[0])  # repeated pair
    if cp["cls"] == "paired":
        pairs += [[k - 1, k] if draw(st.booleans()) else [k, k - 1] for k in range(1, n, 2)]
    periodic = draw(st.sampled_from([True, True, True, False]))
    unred = None
    if cells is not None and draw(st.integers(0, 3)) == 0:
        unred = [draw(st.integers(-2, 2)) for _ in range(3)]
    ntp = draw(st.integers(0, 4))
    tpairs = [[draw(st.integers(0, nf - 1)), draw(st.integers(0, nf - 1))] for _ in range(ntp)]
    g1 = sorted(set(draw(st.lists(st.integers(0, n - 1), min_size=1, max_size=4))))
    g2 = sorted(set(draw(st.lists(st.integers(0, n - 1), min_size=1, max_size=4))))
    return {"idxv": draw(st.sampled_from([0, 0, 0, 1, 2, 3, 4, 5])),     # container of the pair list (see gen.index_variant)
            "nf": nf, "cells": cells, "coords": cp, "pairs": pairs, "periodic": periodic, "unreduced": unred,
            "time_pairs": tpairs, "g1": g1, "g2": g2, "cc_frame": draw(st.integers(0, nf - 1))}


def _check(tag, viol, dist, disp, d_plain, H, ortho, tol):
    """dist (P,), disp (P,3) or None against the oracle for plain differences d_plain (P,3) under cell H"""
    v, m = oracle.mic(d_plain, H)
    wmin = oracle.widths(H).min()
    # float32 error model of the kernel: the plain difference carries eps*|x|, and each of the ~|d|/w_min lattice shifts
    # it subtracts adds eps*|cell| (the box vectors themselves are float32)
    dmax = float(np.linalg.norm(d_plain, axis=1).max()) if len(d_plain) else 0.0
    tol = tol + 8 * oracle.EPS32 * float(np.abs(H).max()) * (dmax / wmin)
    if disp is not None:
        res = oracle.lattice_residual(disp.astype(np.float64) - d_plain, H)
        # residual is in fractional units: scale tolerance by the shortest width
        bad = res > 1e-4 + tol / wmin
        if bad.any():
            i = int(np.argmax(res))
            viol.append((tag + "/disp-not-lattice-shift", "pair#%d residual %.3g" % (i, res[i])))
        ln = np.linalg.norm(disp.astype(np.float64), axis=1)
        if dist is not None and (np.abs(ln - dist) > tol).any():
            i = int(np.argmax(np.abs(ln - dist)))
            viol.append((tag + "/dist!=|disp|", "pair#%d |disp|=%.7g dist=%.7g" % (i, ln[i], dist[i])))
        if dist is None:
            dist = ln
    below = dist < m - tol
    if below.any():
        i = int(np.argmax(m - dist))
        viol.append((tag + "/below-minimum", "pair#%d got %.7g true min %.7g" % (i, dist[i], m[i])))
    inr = np.ones(len(m), bool) if ortho else (m < 0.5 * wmin)
    above = (dist > m + tol) & inr
    if above.any():
        i = int(np.argmax((dist - m) * inr))
        viol.append((tag + "/above-minimum", "pair#%d got %.7g true min %.7g (half width %.5g)" % (i, dist[i], m[i], 0.5 * wmin)))
    return int(inr.sum())


def _wrap_tie(d, H, eps=1e-3):
    """pairs whose successive wrap along c, b, a (on the brick-reduced basis) has a coordinate within eps of a half"""
    a, b, c = (v.copy() for v in H)
    c -= b * np.round(c[1] / b[1])
    c -= a * np.round(c[0] / a[0])
    b -= a * np.round(b[0] / a[0])
    d = d.copy()
    tie = np.zeros(len(d), bool)
    for vec, ax in ((c, 2), (b, 1), (a, 0)):
        s = d[:, ax] / vec[ax]
        tie |= np.abs(np.abs(s - np.floor(s)) - 0.5) < eps
        d -= np.round(s)[:, None] * vec[None, :]
    return tie


def run_case(case):
    import mdtraj as md
    viol, labels = [], []
    nf, cells, periodic = case["nf"], case["cells"], case["periodic"]
    Hs = gen.cell_matrices(cells)
    xyz = gen.expand_coords(case["coords"], nf, Hs)
    traj = gen.make_traj(xyz, cells)
    x = traj.xyz.astype(np.float64)
    pairs = np.array(case["pairs"], dtype=np.int64).reshape(-1, 2)
    # the cell exactly as stored (float32 lengths / angles), converted by the oracle's own formula
    if cells is not None:
        Hs = [gen.box_vectors(traj.unitcell_lengths[f], traj.unitcell_angles[f]) for f in range(nf)]
        ortho_all = bool(np.allclose(traj.unitcell_angles, 90))
    xmax = float(np.abs(x).max())
    cellmax = max([np.abs(H).max() for H in Hs]) if cells is not None else 0.0
    tol = 8 * oracle.EPS32 * (1 + xmax) + 4 * oracle.EPS32 * cellmax * (1 + (case["coords"]["spread"] if case["coords"]["cls"] == "spread" else 2))
    use_cell = cells is not None and periodic
    n_inrange = 0

    results = {}
    for opt in (True, False):
        tag = "opt" if opt else "ref"
        pv = gen.index_variant(pairs, case.get("idxv", 0))
        dist = md.compute_distances(traj, pv, periodic=periodic, opt=opt)
        disp = md.compute_displacements(traj, pv, periodic=periodic, opt=opt)
        results[tag] = (dist, disp)
        if dist.shape != (nf, len(pairs)) or disp.shape != (nf, len(pairs), 3):
            viol.append((tag + "/shape", "%s %s" % (dist.shape, disp.shape)))
            continue
        if len(pairs) == 0:
            continue
        if not (np.isfinite(dist).all() and np.isfinite(disp).all()):
            # (comparisons below are of the form |a - b| > tol, which a NaN passes)
            bad_ = np.argwhere(~np.isfinite(dist))
            viol.append((tag + "/not-finite", "distance / displacement is NaN or inf, e.g. frame %s pair %s" % (
                (bad_[0][0], pairs[bad_[0][1]].tolist()) if len(bad_) else ("?", "?"))))
            continue
        for f in range(nf):
            d_plain = x[f, pairs[:, 1]] - x[f, pairs[:, 0]]
            if use_cell:
                n_inrange += _check(tag, viol, dist[f].astype(np.float64), disp[f], d_plain, Hs[f], ortho_all, tol)
            else:
                e = np.linalg.norm(d_plain, axis=1)
                if (np.abs(dist[f] - e) > tol).any():
                    viol.append((tag + "/euclid-dist", "frame %d max err %.3g" % (f, np.abs(dist[f] - e).max())))
                if (np.abs(disp[f] - d_plain) > tol).any():
                    viol.append((tag + "/euclid-disp", "frame %d max err %.3g" % (f, np.abs(disp[f] - d_plain).max())))
    if len(pairs) and "opt" in results and "ref" in results and results["opt"][0].shape == results["ref"][0].shape:
        # the two paths agree whenever the answer is unique (inside the defined range); outside it both are only
        # required to be lattice images not below the minimum (checked above)
        # (the statement's last sentence: the two paths agree - also outside the defined range, where both run the
        # same reduce / wrap / 27-image search and ties give equal lengths)
        dd = np.abs(results["opt"][0].astype(np.float64) - results["ref"][0])
        if use_cell and not ortho_all:
            # outside the defined range the result depends on which way a wrap coordinate of exactly one half rounds;
            # pairs sitting on such a tie (within 1e-3) are not compared
            for f in range(nf):
                dd[f][_wrap_tie(x[f, pairs[:, 1]] - x[f, pairs[:, 0]], Hs[f])] = 0.0
        if (dd > 2 * tol).any():
            viol.append(("opt-vs-ref", "max diff %.3g" % dd.max()))

    # unreduced vector description through compute_distances_core
    if use_cell and case["unreduced"] is not None and len(pairs):
        k, l, m_ = case["unreduced"]
        vec = traj.unitcell_vectors.astype(np.float64).copy()
        vec[:, 1] += k * vec[:, 0]
        vec[:, 2] += l * vec[:, 0] + m_ * vec[:, 1]
        vec32 = vec.astype(np.float32)
        labels.append("unreduced")
        for opt in (True, False):
            dist = md.geometry.distance.compute_distances_core(traj.xyz, pairs, unitcell_vectors=vec32, periodic=True, opt=opt)
            for f in range(nf):
                d_plain = x[f, pairs[:, 1]] - x[f, pairs[:, 0]]
                _check("core-unreduced-" + ("opt" if opt else "ref"), viol, dist[f].astype(np.float64), None, d_plain,
                       vec32[f].astype(np.float64), False, tol * (1 + abs(k) + abs(l) + abs(m_)))

    # time-pair variant: atom pair[0] at time t1 vs atom pair[1] at time t2 under the cell of t1
    tp = np.array(case["time_pairs"], dtype=np.int64).reshape(-1, 2)
    if len(tp) and len(pairs):
        labels.append("time-pairs")
        for opt in (True, False):
            tag = "t-opt" if opt else "t-ref"
            dt = md.compute_distances_t(traj, pairs, tp, periodic=periodic, opt=opt)
            if dt.shape != (len(tp), len(pairs)):
                viol.append((tag + "/shape", str(dt.shape)))
                continue
            if not np.isfinite(dt).all():
                viol.append((tag + "/not-finite", "a time-pair distance is NaN or inf"))
                continue
            for ti, (t1, t2) in enumerate(tp):
                a = x[t1, pairs[:, 0]]
                b = x[t2, pairs[:, 1]]
                if use_cell:
                    _check(tag, viol, dt[ti].astype(np.float64), None, b - a, Hs[t1], ortho_all, tol)
                else:
                    e = np.linalg.norm(b - a, axis=1)
                    if (np.abs(dt[ti] - e) > tol).any():
                        viol.append((tag + "/euclid", "max err %.3g" % np.abs(dt[ti] - e).max()))

    # closest contact
    g1, g2 = case["g1"], case["g2"]
    f = case["cc_frame"]
    cross = [(i, j) for i in g1 for j in g2 if i != j]
    if cross and not (set(g1) & set(g2)):
        i_, j_, dcc = md.geometry.distance.find_closest_contact(traj, g1, g2, frame=f, periodic=periodic)
        cp = np.array(cross)
        d_plain = x[f, cp[:, 1]] - x[f, cp[:, 0]]
        m = oracle.mic(d_plain, Hs[f])[1] if use_cell else np.linalg.norm(d_plain, axis=1)
        wmin = oracle.widths(Hs[f]).min() if use_cell else np.inf
        if (int(i_), int(j_)) not in cross:
            viol.append(("closest-contact/pair-not-in-groups", "%s" % ((i_, j_),)))
        elif m.min() < 0.5 * wmin or (use_cell and ortho_all):
            k = cross.index((int(i_), int(j_)))
            if abs(dcc - m.min()) > tol or m[k] > m.min() + 2 * tol:
                viol.append(("closest-contact/not-minimal", "got (%d,%d,%.7g) oracle min %.7g, that pair %.7g" % (i_, j_, dcc, m.min(), m[k])))
        labels.append("closest-contact")

    # classification
    nontrivial = False
    if cells is not None:
        labels.append("cell:" + cells[0]["kind"])
        vary = any(c != cells[0] for c in cells)
        if vary:
            labels.append("varying-cell")
        out = case["coords"]["cls"] in ("spread", "faces", "clustered", "paired")
        labels.append("placement:" + case["coords"]["cls"])
        if periodic and len(pairs):
            labels.append("periodic")
            if (not ortho_all) or out or vary:
                nontrivial = True
            if not ortho_all:
                labels.append("skewed")
    else:
        labels.append("cell:none")
    if not periodic:
        labels.append("periodic=False")
    if len(pairs) == 0:
        labels.append("empty-pairs")
    if any(a == b for a, b in case["pairs"]):
        labels.append("i==j")
    if case["coords"]["offset"] > 100:
        labels.append("offset>100nm")
    if n_inrange:
        labels.append("has-in-range-pairs")
    return {"viol": viol, "labels": labels, "nontrivial": nontrivial}

TECHNIQUE = "property-based testing (Hypothesis) against a float64 exhaustive lattice-search oracle"
LEVEL_TEXT = ("Generated-input search: thousands of (cell, coordinates, pair list, flags) cases per run compared with an exact "
              "float64 minimum-image oracle (lattice enumeration on a reduced basis), for both code paths, displacements, the "
              "time-pair variant, unreduced vector input and closest-contact. Finds violations, cannot prove absence.")
LEVEL_NOTE = ("Trusts numpy float64 arithmetic and the oracle's textbook lengths/angles->vectors formula; tolerance "
              "8*eps32*(1+|x|max); skewed cells: upper bound only inside the half-width range, as the property states.")
