"""C02 - partial loading equals slicing the fully loaded trajectory."""
import atexit
import itertools
import os
import shutil
import warnings

import numpy as np
from hypothesis import strategies as st

from vlib import files

ID = "C02"
FMTS = ["h5", "xtc", "trr", "dcd", "nc", "mdcrd", "xyz", "lammpstrj", "gro", "pdb", "dtr", "xyz.gz", "pdb.gz", "netcdf", "crd"]
RULE = ("case = (format, n_frames 1-24, n_atoms, cell, request) with request in {load(stride[,atom_indices]), load_frame(i), "
        "iterload(chunk,stride,skip[,atom_indices]), load([files])}; oracle = slicing / atom_slice / join of the full load of the same "
        "file, bit-identical in xyz, time, cell, plus topology subset signature and chunk-size / chunk-count bounds (bounded "
        "iteration, no timeouts); non-trivial = stride>1 or skip>0 or chunk not dividing n or chunk%stride!=0 or atom subset or >1 file")
ENUM_SCOPE = ("iterload grid: every format x n_frames in N x chunk in 0..n+2 x stride in 1..4 x skip in 0..n "
              "(quick: N={5}; thorough: N=1..10), swept completely")
RULE += ("; widened: files of 513-1030 frames, files written by other programs (stored test data, shuffled LAMMPS rows, TRR velocity / force blocks, fixed-atom DCD), atom_indices in the caller's order, load([file, file-reversed], discard_overlapping_frames=True/False) against the documented overlap rule")
QUICK = {"examples": 500, "shards": 12, "budget_s": 100}
THOROUGH = {"examples": 4000, "shards": 16, "budget_s": 1500}
ASSUMPTIONS = ["the reference is mdtraj's own full load of the same file, so format precision cancels and equality is exact",
               "NotImplementedError from a format is recorded as 'unsupported', not as a violation"]

_CACHE = {}

# ---- open known findings (all in Cython sources that cannot be rebuilt here): region predicates -------------------

def _sub(c):
    return c.get("atoms") is not None and len(c["atoms"]) < c["na"]


WHERE = {
    # XTC iterload never terminates when stride>1 and skip>0
    "C02-xtc-iterload-stride-skip": lambda c, k: c["fmt"] == "xtc" and c["op"] == "iterload" and c["chunk"] > 0
    and c.get("stride", 1) > 1 and c["skip"] > 0,
    # XTC / TRR seek(n_frames) raises, so iterload(skip=n_frames) raises instead of yielding nothing
    "C02-xdr-skip-eq-nframes": lambda c, k: c["fmt"] in ("xtc", "trr") and c["op"] == "iterload" and c["chunk"] > 0
    and c["skip"] == c["nf"],
    # DTR ignores frame= / n_frames: load_frame returns every frame, iterload ignores the chunk size
    "C02-dtr-ignores-nframes": lambda c, k: c["fmt"] == "dtr" and (c["op"] == "frame" or (c["op"] == "iterload" and c["chunk"] > 0)),
    # TRR: stride>1 together with an atom subset overflows a heap buffer (frames skipped by reading go into a buffer
    # sized for the subset) -> memory corruption, crash
    "C02-trr-stride-atoms-overflow": lambda c, k: c["fmt"] == "trr" and c.get("stride", 1) > 1 and _sub(c),
}


def _avoid(case, open_keys, coin):
    """step a generated case out of the region of every open finding (constructively); returns labels of what was excluded"""
    ex = []
    for key in open_keys:
        if key in WHERE and WHERE[key](case, None):
            ex.append("excluded:" + key)
            if key == "C02-xtc-iterload-stride-skip":
                if coin:
                    case["skip"] = 0
                else:
                    case["stride"] = 1
            elif key == "C02-xdr-skip-eq-nframes":
                case["skip"] = case["nf"] - 1
            elif key == "C02-dtr-ignores-nframes":
                if case["op"] == "frame":
                    case.update(op="stride", stride=1 + case.pop("frame") % 3)
                else:
                    case["chunk"] = 0
            elif key == "C02-trr-stride-atoms-overflow":
                if coin:
                    case.pop("atoms")
                else:
                    case["stride"] = 1
    if ex:
        case["excluded"] = ex
    return case


def _cleanup():
    for d, *_ in _CACHE.values():
        shutil.rmtree(d, ignore_errors=True)


atexit.register(_cleanup)


def _shuffle_lammpstrj_rows(fn, seed):
    """rewrite a LAMMPS dump with the atom records of every frame in random order (what LAMMPS itself writes unless
    `dump_modify sort id` is given); every record carries its atom id, so the content is the same"""
    rng = np.random.Generator(np.random.PCG64(seed + 4242))
    out, block = [], None

    def flush():
        nonlocal block
        if block is not None:
            out.extend(block[i] for i in rng.permutation(len(block)))
        block = None
    for line in open(fn).read().splitlines():
        if line.startswith("ITEM:"):
            flush()
            out.append(line)
            if line.startswith("ITEM: ATOMS"):
                block = []
        elif block is not None:
            if line.strip():
                block.append(line)
        else:
            out.append(line)
    flush()
    open(fn, "w").write("\n".join(out) + "\n")


def _lammpstrj_extra_column(fn):
    """rewrite a LAMMPS dump with a molecule-id column between id and type (`dump custom id mol type x y z`): the columns are
    named in every frame's ITEM: ATOMS line, so the content is the same"""
    out, in_atoms = [], False
    for line in open(fn).read().splitlines():
        if line.startswith("ITEM:"):
            in_atoms = line.startswith("ITEM: ATOMS")
            if in_atoms:
                cols = line.split()[2:]
                line = "ITEM: ATOMS " + " ".join([cols[0], "mol"] + cols[1:])
            out.append(line)
        elif in_atoms and line.strip():
            w = line.split()
            out.append(" ".join([w[0], "1"] + w[1:]))
        else:
            out.append(line)
    open(fn, "w").write("\n".join(out) + "\n")


# files written by other programs, as shipped with mdtraj's own tests (copied to seeds/stored): 22 atoms, 501 frames (mdcrd: 1002)
STORED = {"xtc": 501, "trr": 501, "dcd": 501, "nc": 501, "h5": 501, "gro": 501, "lammpstrj": 501, "mdcrd": 1002, "xyz": 501,
          "xyz.gz": 501, "pdb.gz": 501}
_STORED = {}


def _stored(fmt):
    import mdtraj as md
    if fmt not in _STORED:
        d = os.path.join(files.VERIF, "seeds", "stored")
        with warnings.catch_warnings():
            warnings.simplefilter("ignore")
            if "top" not in _STORED:
                _STORED["top"] = md.load_frame(os.path.join(d, "frame0.pdb.gz"), 0)
            fn = os.path.join(d, "frame0." + fmt)
            _STORED[fmt] = (fn, _STORED["top"], files.load(fn, fmt, _STORED["top"].topology))
    return _STORED[fmt]


def _rewrite_trr_with_vf(fn, tr, vf, seed):
    """the same frames as GROMACS writes them when velocities and / or forces are saved too (mdtraj's public writer stores
    coordinates only; its reader has to step over the extra blocks)"""
    from mdtraj.formats import TRRTrajectoryFile
    rng = np.random.Generator(np.random.PCG64(seed + 777))
    n, a = tr.n_frames, tr.n_atoms
    box = np.zeros((n, 3, 3), dtype=np.float32) if tr.unitcell_vectors is None else np.ascontiguousarray(tr.unitcell_vectors, dtype=np.float32)
    extra = {}
    if "v" in vf:
        extra["vel"] = rng.normal(0, 1, (n, a, 3)).astype(np.float32)
    if "f" in vf:
        extra["forces"] = rng.normal(0, 100, (n, a, 3)).astype(np.float32)
    with TRRTrajectoryFile(fn, "w", force_overwrite=True) as fh:
        fh._write(np.ascontiguousarray(tr.xyz, dtype=np.float32), np.ascontiguousarray(tr.time, dtype=np.float32),
                  np.arange(n, dtype=np.int32), box, np.zeros(n, dtype=np.float32), **extra)


def _file(fmt, nf, na, cell, seed, idx=0, rows=None, stored=False, trr_vf=None, dcd_fixed=False, dcd_nset=None):
    """saved test file + its full load, cached per process"""
    if stored:
        return _stored(fmt)
    key = (fmt, nf, na, cell, seed, idx, rows, trr_vf, dcd_fixed, dcd_nset)
    if key in _CACHE:
        return _CACHE[key][1:]
    base = "/dev/shm" if os.access("/dev/shm", os.W_OK) else os.path.join(files.VERIF, ".scratch")
    os.makedirs(base, exist_ok=True)
    import tempfile
    d = tempfile.mkdtemp(prefix="vf-c02-", dir=base)
    tr = files.file_traj(nf, na, cell, seed + idx, time="offset")
    fn = os.path.join(d, "f%d.%s" % (idx, fmt))
    with warnings.catch_warnings():
        warnings.simplefilter("ignore")
        tr.save(fn)
    if dcd_fixed:
        # the same frames as CHARMM / NAMD store them when some atoms are fixed: every second atom does not move ("half",
        # True in older replay files), all but two do not ("most"), or only the first one does not ("one")
        fixed = {"most": np.setdiff1d(np.arange(na), [1, na - 1]), "one": np.arange(1)}.get(dcd_fixed, np.arange(0, na, 2))
        tr.xyz[1:, fixed] = tr.xyz[0, fixed]
        free = np.setdiff1d(np.arange(na), fixed)
        files.write_dcd_fixed_atoms(fn, tr.xyz, free, None if tr.unitcell_lengths is None else (tr.unitcell_lengths, tr.unitcell_angles))
    if dcd_nset is not None and fmt == "dcd":
        # the frame-count field of the header (int32 at byte 8) as a program that was killed, or that appended frames without
        # updating it, leaves it: 0 or a stale smaller number; the frames themselves are all there
        with open(fn, "r+b") as fh_:
            fh_.seek(8)
            fh_.write(np.array([0 if dcd_nset == "zero" else max(nf // 2, 1) if nf > 1 else 0], dtype="<i4").tobytes())
    if trr_vf:
        plain_full = files.load(fn, fmt, tr.topology)
        _rewrite_trr_with_vf(fn, tr, trr_vf, seed + idx)
    if rows in ("shuffled", "molcol"):
        sorted_full = files.load(fn, fmt, tr.topology)
        if rows == "shuffled":
            _shuffle_lammpstrj_rows(fn, seed + idx)
        else:
            _lammpstrj_extra_column(fn)
    full = files.load(fn, fmt, tr.topology)
    if rows in ("shuffled", "molcol"):
        full._row_order_diff = files.traj_diff(full, sorted_full)
    if trr_vf:
        full._vf_diff = files.traj_diff(full, plain_full)
    if dcd_fixed:
        full._fixed_diff = None if (full.xyz.shape == tr.xyz.shape and np.abs(full.xyz - tr.xyz).max() < 1e-5) else "coordinates of the full load differ from the frames stored"
    _CACHE[key] = (d, fn, tr, full)
    return fn, tr, full


def _cellkind(fmt, want):
    f = files.FORMATS[fmt]
    if want is None and f.get("need_cell"):
        return "ortho"
    if not f["cell"]:
        return None
    if want in ("tric", "vary") and not f["tric"]:
        return "ortho"
    return want


@st.composite
def strategy(draw, tier="quick"):
    fmt = draw(st.sampled_from(FMTS))
    nf = draw(st.integers(1, 24))
    na = draw(st.sampled_from([1, 2, 3, 8, 9, 10, 11, 12]))
    if fmt in ("mdcrd", "crd") and na == 1:
        na = 2  # a one-atom mdcrd frame is a single line of three numbers, indistinguishable from a box line: the format itself is ambiguous
    cell = _cellkind(fmt, draw(st.sampled_from([None, "ortho", "tric", "vary"])))
    op = draw(st.sampled_from(["stride", "stride", "frame", "iterload", "iterload", "iterload", "list"]))
    case = {"fmt": fmt, "nf": nf, "na": na, "cell": cell, "seed": draw(st.integers(0, 3)), "op": op}
    if fmt == "lammpstrj" and na >= 2 and draw(st.booleans()):
        case["rows"] = draw(st.sampled_from(["shuffled", "molcol"]))       # a dump as LAMMPS writes it without `dump_modify sort id` / with a molecule-id column
    if fmt in ("pdb", "pdb.gz") and na >= 3 and draw(st.integers(0, 4)) == 0:
        case["cell"] = "tiny"          # density of the whole file 1000 / nm^3 < n / V: the CRYST1 record counts as a dummy
    if fmt == "dcd" and na >= 2 and cell != "tric" and cell != "vary" and draw(st.integers(0, 2)) == 0:
        case["dcd_fixed"] = draw(st.sampled_from(["half", "most", "one"]))       # a DCD with fixed atoms (CHARMM / NAMD): later frames store the free atoms only
    if fmt == "dcd" and draw(st.integers(0, 3)) == 0:
        case["dcd_nset"] = draw(st.sampled_from(["zero", "stale"]))     # header frame count never updated (killed writer)
    if fmt == "trr" and draw(st.booleans()):
        case["trr_vf"] = draw(st.sampled_from(["v", "f", "vf"]))       # a TRR file as GROMACS writes it with nstvout / nstfout > 0
    if fmt in ("h5", "xtc", "trr", "dcd", "nc", "netcdf", "xyz", "mdcrd", "lammpstrj", "gro") and draw(st.integers(0, 11)) == 0:
        # a long generated file: more frames than any internal block size is likely to be (256, 512, 1000); coarse requests only
        nf = draw(st.sampled_from([513, 600, 1030]))
        na = draw(st.sampled_from([3, 10, 40]))        # (storage chunks of HDF5 / NetCDF: ~1820 / 546 / 136 frames)
        case = {"fmt": fmt, "nf": nf, "na": na, "cell": _cellkind(fmt, draw(st.sampled_from(["ortho", "tric"]))), "seed": 0, "op": op, "long": True}
        if draw(st.booleans()):
            case["atoms"] = sorted(set(draw(st.lists(st.integers(0, na - 1), min_size=1, max_size=na))))
        if op in ("stride", "iterload", "list"):
            case["stride"] = draw(st.sampled_from([1, 2, 3, 5, 7, 10, 100, 511, 512]))
        if op == "frame":
            case["frame"] = draw(st.sampled_from([0, 255, 256, 511, 512, nf - 1]))
        if op == "iterload":
            case["chunk"] = draw(st.sampled_from([0, 100, 200, 256, 300, nf]))
            case["skip"] = draw(st.sampled_from([0, 1, 255, 256, 512, nf - 1]))
        if op == "list":
            case["k"] = draw(st.integers(1, 2))
        return _avoid(case, _open_keys(), draw(st.booleans()))
    if fmt in STORED and draw(st.integers(0, 2 if fmt in ("h5", "nc") else 9)) == 0:
        # a file written by another program (mdtraj's own test data): long, so only coarse requests
        nf, na = STORED[fmt], 22
        case = {"fmt": fmt, "nf": nf, "na": na, "cell": "stored", "seed": 0, "op": op, "stored": True}
        if draw(st.booleans()):
            case["atoms"] = sorted(set(draw(st.lists(st.integers(0, na - 1), min_size=1, max_size=na))))
        if op in ("stride", "iterload", "list"):
            case["stride"] = draw(st.sampled_from([1, 2, 3, 7, 50, 100, 250, 500, 501]))
        if op == "frame":
            case["frame"] = draw(st.sampled_from([0, 1, nf // 2, nf - 2, nf - 1]))
        if op == "iterload":
            case["chunk"] = draw(st.sampled_from([0, 100, 167, 250, nf - 1, nf, nf + 1]))
            case["skip"] = draw(st.sampled_from([0, 1, 100, nf - 1, nf]))
        if op == "list":
            case["k"] = draw(st.integers(1, 2))
        return _avoid(case, _open_keys(), draw(st.booleans()))
    if draw(st.booleans()):
        if na >= 7 and draw(st.integers(0, 2)) == 0:
            # almost-regular subsets: an arithmetic progression with one interior element moved by one - the shapes a
            # "turn the index array into a slice" shortcut gets wrong
            g = draw(st.integers(1, 3))
            first = draw(st.integers(0, 2))
            prog = list(range(first, na, g))[:draw(st.integers(3, 6))]
            if len(prog) >= 3 and g >= 2:
                k = draw(st.integers(1, len(prog) - 2))
                prog[k] += draw(st.sampled_from([-1, 1]))
            case["atoms"] = sorted(set(a for a in prog if 0 <= a < na))
        else:
            case["atoms"] = sorted(set(draw(st.lists(st.integers(0, na - 1), min_size=1, max_size=na))))
            if len(case["atoms"]) > 1 and draw(st.integers(0, 3)) == 0:
                case["atoms"] = list(draw(st.permutations(case["atoms"])))     # the caller's order, not ascending
    if op in ("stride", "iterload", "list"):
        case["stride"] = draw(st.integers(1, 5))
    if op == "frame":
        case["frame"] = draw(st.integers(0, nf - 1))
    if op == "iterload":
        case["chunk"] = draw(st.integers(0, nf + 3))
        case["skip"] = draw(st.integers(0, nf))
    if op == "list":
        case["k"] = draw(st.integers(1, 4))
        if fmt != "dtr" and draw(st.integers(0, 2)) == 0:
            # restart segments: a second file that begins with the last frame of the first, loaded with discard_overlapping_frames
            case["discard"] = draw(st.booleans())
            case["stride"] = draw(st.sampled_from([1, 1, 2, nf - 1 if nf > 2 else 1]))
    return _avoid(case, _open_keys(), draw(st.booleans()))


def _open_keys():
    from vlib.runner import load_findings
    return [f["key"] for f in load_findings(ID) if f.get("status") == "open"]


def enumerate_cases(tier):
    ns = [5] if tier == "quick" else list(range(1, 11))
    ok = _open_keys()
    for fmt in FMTS[:11]:
        for n in ns:
            for stride in range(1, 5):
                for skip in range(0, n + 1):
                    for chunk in range(0, n + 3):
                        c = {"fmt": fmt, "nf": n, "na": 10, "cell": _cellkind(fmt, "ortho"), "seed": 0, "op": "iterload",
                             "chunk": chunk, "stride": stride, "skip": skip}
                        if any(WHERE[k](c, None) for k in ok if k in WHERE):
                            continue  # region of an open known finding: left out of the sweep (counted in ENUM_SCOPE)
                        yield c


def _top_sig(top):
    return ([(a.name, a.element.symbol if a.element is not None else None, a.residue.name, a.residue.resSeq, a.residue.chain.index,
              a.index, a.residue.index) for a in top.atoms], sorted((b[0].index, b[1].index) for b in top.bonds))


def run_case(case):
    if case.get("repeat"):
        # used only by recorded replays of memory-corruption findings: repeating the request makes the damage to the
        # heap large enough that glibc's consistency checks (MALLOC_CHECK_=3) reliably abort the process
        sub = dict(case)
        n = sub.pop("repeat")
        out = None
        for _ in range(n):
            out = _run_case(sub)
        import gc
        gc.collect()
        return out
    return _run_case(case)


def _trim_cache():
    """called between cases only: a case (file lists!) may use several cached files at once"""
    while len(_CACHE) > 24:
        k0 = next(iter(_CACHE))
        shutil.rmtree(_CACHE.pop(k0)[0], ignore_errors=True)


def _run_case(case):
    import mdtraj as md
    _trim_cache()
    viol, labels = [], ["fmt:" + case["fmt"], "op:" + case["op"]] + list(case.get("excluded", []))
    fmt, nf, na = case["fmt"], case["nf"], case["na"]
    fn, tr, full = _file(fmt, nf, na, case["cell"], case["seed"], rows=case.get("rows"), stored=case.get("stored", False), trr_vf=case.get("trr_vf"), dcd_fixed=case.get("dcd_fixed", False), dcd_nset=case.get("dcd_nset"))
    if case.get("long"):
        labels.append("long-file:%d" % case["nf"])
    if case.get("stored"):
        labels.append("stored-foreign-file")
    if case.get("dcd_fixed"):
        labels.append("dcd-with-fixed-atoms")
        if getattr(full, "_fixed_diff", None):
            viol.append(("dcd/fixed-atoms-full-load", full._fixed_diff))
    if case.get("trr_vf"):
        labels.append("trr-with:" + case["trr_vf"])
        if getattr(full, "_vf_diff", None):
            viol.append(("trr/velocity-force-blocks-change-the-frames", "the same frames stored with velocities / forces load differently: %s" % full._vf_diff))
    if case.get("rows"):
        labels.append("rows:" + case["rows"])
        if getattr(full, "_row_order_diff", None):
            viol.append(("%s/row-order-changes-full-load" % fmt, "the same dump with its atom records in another order loads differently: %s" % full._row_order_diff))
    kw = {"top": tr.topology} if files.needs_top(fmt) else {}
    atoms = case.get("atoms")
    akw = {} if atoms is None else {"atom_indices": np.array(atoms)}
    stride = case.get("stride", 1)
    nontrivial = atoms is not None and len(atoms) < na

    def expect(t):
        return t if atoms is None else t.atom_slice(atoms)

    def cmp(tag, got, exp):
        d = files.traj_diff(got, exp)
        if d:
            viol.append((tag, d))
        elif _top_sig(got.topology) != _top_sig(exp.topology):
            viol.append((tag + "/topology", "topology of the partial load differs from subset of the full one"))

    with warnings.catch_warnings():
        warnings.simplefilter("ignore")
        try:
            if case["op"] == "stride":
                got = md.load(fn, stride=stride, **akw, **kw)
                cmp("load-stride" if atoms is None else "load-stride-atoms", got, expect(full[::stride]))
                nontrivial = nontrivial or stride > 1
            elif case["op"] == "frame":
                i = case["frame"]
                got = md.load_frame(fn, i, **akw, **kw)
                cmp("load_frame", got, expect(full[i]))
                got2 = md.load(fn, frame=i, **akw, **kw)
                cmp("load(frame=)", got2, expect(full[i]))
                nontrivial = nontrivial or i > 0
            elif case["op"] == "list":
                k = case["k"]
                fns, fulls, fulls_all = [], [], []
                for j in range(k):
                    f_j, _t, full_j = _file(fmt, nf, na, case["cell"], case["seed"], idx=j, rows=case.get("rows"), stored=case.get("stored", False), trr_vf=case.get("trr_vf"), dcd_fixed=case.get("dcd_fixed", False), dcd_nset=case.get("dcd_nset"))
                    fns.append(f_j)
                    fulls.append(full_j[::stride])
                    fulls_all.append(full_j)
                got = md.load(fns, stride=stride, **akw, **kw)
                exp = fulls[0] if k == 1 else md.join(fulls, check_topology=False)
                cmp("load-list" if atoms is None else "load-list-atoms", got, expect(exp))
                if atoms is not None and files.needs_top(fmt):
                    # the caller's Topology object must come out of the call unchanged and keep working: a second partial
                    # load through the same object with another subset must again be restricted to *its* atoms
                    if "subset" in vars(tr.topology):
                        viol.append(("load-list-atoms/caller-topology-modified", "md.load(list, top=<Topology>, atom_indices=...) left a patched "
                                     "`subset` attribute on the caller's Topology object"))
                        del tr.topology.__dict__["subset"]   # keep the cached object usable for later cases
                    else:
                        other = [a for a in range(na) if a not in atoms][:3] or [0]
                        got2 = md.load(fns[:1], atom_indices=np.array(other), **kw)
                        d2 = files.traj_diff(got2, fulls_all[0].atom_slice(other))
                        if d2 or _top_sig(got2.topology) != _top_sig(fulls_all[0].atom_slice(other).topology):
                            viol.append(("load-list-atoms/second-load", "a second load through the same Topology object with another atom subset is wrong: %s" % d2))
                nontrivial = k > 1 or atoms is not None
                if "discard" in case and not viol:
                    # a second file holding the frames of the first in reverse order: it begins with the first one's last frame
                    rev = fulls_all[0][::-1]
                    rev.time = fulls_all[0].time.copy()
                    with files.scratch() as d2:
                        fr = os.path.join(d2, "rev." + fmt)
                        rev.save(fr)
                        full_rev = files.load(fr, fmt, tr.topology)
                        got = md.load([fns[0], fr], stride=stride, discard_overlapping_frames=case["discard"], **akw, **kw)
                    # (the pieces as loaded, i.e. restricted to the selected atoms: the overlap rule looks at those)
                    p0, p1 = expect(fulls_all[0][::stride]), expect(full_rev[::stride])
                    overlap = bool(np.all(np.abs(p1.xyz[0] - p0.xyz[-1]) < 2e-3))
                    if case["discard"] and overlap and len(p0) > 0:
                        # documented rule: the last frame of a piece is dropped when the next piece begins with (nearly) the same frame
                        labels.append("overlap-discarded")
                        p0 = p0[:-1]
                    exp2 = p1 if len(p0) == 0 else md.join([p0, p1], check_topology=False)
                    cmp("load-list-overlapping(discard=%s)" % case["discard"], got, exp2)
                    nontrivial = True
            else:
                chunk, skip = case["chunk"], case["skip"]
                exp = expect(full[skip:][::stride])
                limit = (len(exp) // max(chunk, 1)) + 3
                it = md.iterload(fn, chunk=chunk, stride=stride, skip=skip, **akw, **kw)
                chunks = list(itertools.islice(it, limit + 1))
                if len(chunks) > limit:
                    viol.append(("iterload/unbounded", "more than %d chunks for %d expected frames" % (limit, len(exp))))
                else:
                    sizes = [len(c) for c in chunks]
                    tot = sum(sizes)
                    if tot == 0:
                        if len(exp) != 0:
                            viol.append(("iterload/concat", "no frames, expected %d" % len(exp)))
                    else:
                        nz = [c for c in chunks if len(c)]
                        cat = nz[0] if len(nz) == 1 else md.join(nz, check_topology=False)
                        d = files.traj_diff(cat, exp)
                        if d:
                            viol.append(("iterload/concat", "%s; sizes %s" % (d, sizes)))
                        elif _top_sig(cat.topology) != _top_sig(exp.topology):
                            viol.append(("iterload/topology", "subset topology differs"))
                        elif chunk > 0 and (any(s != chunk for s in sizes[:-1]) or not (1 <= sizes[-1] <= chunk)):
                            viol.append(("iterload/chunk-sizes", "chunk=%d sizes %s" % (chunk, sizes)))
                        elif chunk == 0 and len(nz) != 1:
                            viol.append(("iterload/chunk-sizes", "chunk=0 must give one chunk, sizes %s" % sizes))
                if stride > 1:
                    labels.append("stride>1")
                if skip > 0:
                    labels.append("skip>0")
                if chunk and chunk % stride:
                    labels.append("chunk%stride!=0")
                if chunk > nf:
                    labels.append("chunk>n")
                if chunk == 0:
                    labels.append("chunk=0")
                if skip == nf:
                    labels.append("skip=n")
                nontrivial = nontrivial or stride > 1 or skip > 0 or (chunk and nf % chunk != 0)
        except NotImplementedError:
            labels.append("unsupported")
    # kinds carry the format so that root causes can be told apart
    viol = [("%s/%s" % (fmt, k), d) for k, d in viol]
    return {"viol": viol, "labels": labels, "nontrivial": bool(nontrivial)}

TECHNIQUE = "property-based testing + exhaustive grid enumeration; differential oracle: partial load vs slice of the full load"
LEVEL_TEXT = ("Every generated request (stride, atom subset, single frame, iterload chunk/stride/skip, file lists) on files of 15 "
              "extensions is compared with slicing the full load of the same file; the iterload grid for a 5-frame file "
              "(thorough: 1-10 frames) is swept completely for 11 formats; iteration is bounded semantically so a "
              "non-terminating generator is a violation, not a hang.")
LEVEL_NOTE = ("Reference is mdtraj's own full load (C01 covers its correctness). Regions of four open findings in Cython readers "
              "(xtc/trr/dtr) are excluded by construction and replayed separately.")
