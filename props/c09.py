"""C09 - observables are invariant under rigid motion and under lattice translation (metamorphic)."""
import os
import warnings

import numpy as np
from hypothesis import strategies as st

from vlib import files, gen, oracle

ID = "C09"
RULE = ("case = (protein fragment with hydrogens quantised to 2^-10 nm, 1-2 frames) x transformation: non-periodic {one of the 24 exact cube "
        "rotations + dyadic translation up to 512 nm (exact in float32) | random SO(3) rotation + arbitrary translation up to 500 nm}; "
        "(each frame moved by a rigid motion of its own); periodic {per-atom integer lattice shifts of +-3 cells and/or a whole-system translation, orthorhombic cells with dyadic lengths "
        "(exact) or triclinic cells (re-rounded)}; observables: distances, angles, dihedrals (magnitude and sign), RMSD to a co-moved "
        "reference, Rg, gyration-tensor eigenvalues, DRID, SASA, contacts (all five schemes), Baker-Hubbard / Wernet-Nilsson / Kabsch-Sander hydrogen bonds, "
        "DSSP, neighbour sets; oracle: before == after (discrete observables identical under exact transforms, continuous within L*delta + "
        "kernel tolerance, neighbour sets modulo pairs within 1e-4 of the cutoff); non-trivial = |translation| > 50 nm or a non-identity "
        "rotation or >=1 atom shifted by a lattice vector")
QUICK = {"examples": 200, "shards": 12, "budget_s": 110}
THOROUGH = {"examples": 1500, "shards": 16, "budget_s": 1700}
ASSUMPTIONS = ["SASA: under exact translations the accessible-point counts may differ only by borderline points (<= 0.5% of all points + 3), "
               "under rotations the total area is compared within the quadrature error 2.5/sqrt(n_points)",
               "general (inexact) motions: only continuous observables are compared, with tolerance 64*eps32*(|x|max+1) (+ conditioning for angles)"]
WHERE = {}
_BASE = {}
CUBE = oracle.cube_rotations()


def base():
    if "t" not in _BASE:
        import mdtraj as md
        with warnings.catch_warnings():
            warnings.simplefilter("ignore")
            t = md.load(os.path.join(files.VERIF, "seeds", "protein8.h5"))
        keep = [a.index for a in t.topology.atoms if a.residue.index < 14]
        t = t.atom_slice(keep)[:2]
        x = np.round((t.xyz - t.xyz.mean(axis=(0, 1))).astype(np.float64) * 1024) / 1024
        t.xyz = x.astype(np.float32)
        _BASE["t"] = t
    return _BASE["t"]


@st.composite
def strategy(draw, tier="quick"):
    mode = draw(st.sampled_from(["exact", "exact", "general", "periodic-exact", "periodic-tric", "periodic-near-ortho"]))
    case = {"mode": mode, "nf": draw(st.integers(1, 2)), "seed": draw(st.integers(0, 2 ** 31)),
            "rot": draw(st.integers(0, 23)), "tpow": draw(st.sampled_from([0, 0, 3, 6, 9])),
            "tmag": draw(st.sampled_from([0.0, 1.0, 60.0, 500.0])),
            "shift": draw(st.sampled_from(["atoms", "atoms", "system", "both", "one-atom", "half"]))}
    return case


def observables(t, periodic, want_discrete=True):
    import mdtraj as md
    n = t.n_atoms
    rng = np.random.Generator(np.random.PCG64(99))
    pairs = rng.integers(0, n, (60, 2))
    pairs = pairs[pairs[:, 0] != pairs[:, 1]]
    trip = np.array([[i, i + 1, i + 2] for i in range(0, n - 3, 7)])
    quad = np.array([[i, i + 1, i + 2, i + 3] for i in range(0, n - 4, 7)])
    out = {}
    out["distances"] = md.compute_distances(t, pairs, periodic=periodic)
    out["angles"] = md.compute_angles(t, trip, periodic=periodic)
    out["dihedrals"] = md.compute_dihedrals(t, quad, periodic=periodic)
    # distance of the closest contact between the first and the second half of the atoms (the pair itself may change among ties)
    g1, g2 = np.arange(0, n // 2), np.arange(n // 2, n)
    out["closest-contact"] = np.array([md.geometry.distance.find_closest_contact(t, g1, g2, frame=f, periodic=periodic)[2]
                                       for f in range(t.n_frames)])
    out["contacts"] = md.compute_contacts(t, "all", scheme="closest-heavy", periodic=periodic)[0]
    for scheme in ("ca", "closest", "sidechain", "sidechain-heavy"):
        out["contacts-" + scheme] = md.compute_contacts(t, "all", scheme=scheme, periodic=periodic)[0]
    if not periodic:
        out["rg"] = md.compute_rg(t)
        out["gyration-eig"] = np.array([np.linalg.eigvalsh(g) for g in md.compute_gyration_tensor(t)])
        out["drid"] = md.compute_drid(t, atom_indices=np.arange(0, n, 5))
        out["sasa"] = md.shrake_rupley(t, n_sphere_points=100)
    if want_discrete:
        cut = 0.45
        out["neighbors"] = [sorted(int(v) for v in fr) for fr in md.compute_neighbors(t, cut, np.arange(0, 12), periodic=periodic)]
        out["neighborlist"] = [sorted(int(v) for v in lst) for lst in md.compute_neighborlist(t, cut, 0, periodic=periodic)]
        out["baker_hubbard"] = sorted(tuple(int(v) for v in r) for r in md.baker_hubbard(t, periodic=periodic))
        out["wernet_nilsson"] = [sorted(tuple(int(v) for v in r) for r in fr) for fr in md.wernet_nilsson(t, periodic=periodic)]
        if not periodic:
            out["kabsch_sander"] = [sorted(zip(m.tocoo().row.tolist(), m.tocoo().col.tolist())) for m in md.kabsch_sander(t)]
            out["dssp"] = md.compute_dssp(t, simplified=False).tolist()
    return out, pairs


def run_case(case):
    import mdtraj as md
    viol, labels = [], ["mode:" + case["mode"]]
    rng = np.random.Generator(np.random.PCG64(case["seed"]))
    with warnings.catch_warnings():
        warnings.simplefilter("ignore")
        t0 = base()[:case["nf"]]
        x = t0.xyz.astype(np.float64)
        mode = case["mode"]
        periodic = mode.startswith("periodic")
        nontrivial = False
        if not periodic:
            if mode == "exact":
                R = CUBE[case["rot"]]
                tr = np.array([1.0, -2.0, 0.5]) * (2.0 ** case["tpow"])     # dyadic, |t| up to 1024 nm -> cap below
                tr = np.clip(tr, -512, 512)
                y = x @ R.T + tr
                for f_ in range(1, case["nf"]):
                    # every further frame gets a rigid motion of its own (another cube rotation, another dyadic translation)
                    y[f_] = x[f_] @ CUBE[(case["rot"] + 7 * f_) % 24].T + tr * (0.5 if f_ % 2 else -0.25)
                exact = True
                nontrivial = case["rot"] != 0 or case["tpow"] >= 6
            else:
                R = oracle.random_rotation(rng)
                u = rng.normal(size=3)
                tr = case["tmag"] * u / np.linalg.norm(u)
                y = x @ R.T + tr
                for f_ in range(1, case["nf"]):
                    uf = rng.normal(size=3)
                    y[f_] = x[f_] @ oracle.random_rotation(rng).T + case["tmag"] * uf / np.linalg.norm(uf)
                exact = False
                nontrivial = True
            ta = md.Trajectory(x.astype(np.float32), t0.topology)
            tb = md.Trajectory(y.astype(np.float32), t0.topology)
            if exact and not np.array_equal(tb.xyz.astype(np.float64), y):
                from vlib.runner import HarnessError
                raise HarnessError("exact transform is not exact in float32")
            cells = None
        else:
            if mode == "periodic-exact":
                # (edge lengths in ascending or descending order: c shorter or longer than b)
                # ... or a cell much smaller than the system along one or two axes (separations between half a short edge and half the
                # long one; the system then overlaps its own images, which lattice translations do not alter)
                Lx = [[8.25, 7.5, 6.0], [6.0, 7.5, 8.25], [5.0, 2.5, 1.75], [1.75, 2.5, 5.0]][case["seed"] % 4]
                cells = [{"kind": "ortho", "L": Lx, "A": [90.0, 90.0, 90.0]}] * case["nf"]
            elif mode == "periodic-near-ortho":
                # almost rectangular (angles 0.004 - 0.005 degrees off 90, off-diagonal components 4e-4 - 7e-4 nm): a triclinic cell all the same
                cells = [{"kind": "near-ortho", "L": [6.0, 7.5, 8.25], "A": [90.004, 89.995, 90.0045]}] * case["nf"]
            else:
                # (a skewed cell that differs from frame to frame)
                cells = [{"kind": "tric", "L": [6.0 + 0.25 * f_, 7.5, 8.25 - 0.125 * f_], "A": [75.0 + 2.0 * f_, 85.0, 100.0 - 1.5 * f_]}
                         for f_ in range(case["nf"])]
            Hs = gen.cell_matrices(cells)
            y = x.copy() + 3.0
            x = x + 3.0
            for f in range(case["nf"]):
                if case["shift"] == "one-atom":      # a single atom leaves through the boundary, everything else stays
                    k = int(rng.integers(0, y.shape[1]))
                    y[f, k] = y[f, k] + rng.integers(-3, 4, 3) @ Hs[f]
                if case["shift"] == "half":
                    moved = rng.random(y.shape[1]) < 0.5
                    y[f, moved] = y[f, moved] + rng.integers(-3, 4, (int(moved.sum()), 3)) @ Hs[f]
                if case["shift"] in ("atoms", "both"):
                    y[f] = y[f] + rng.integers(-3, 4, (y.shape[1], 3)) @ Hs[f]
                if case["shift"] in ("system", "both"):
                    y[f] = y[f] + (np.array([2.0, -1.0, 0.5]) * (2.0 ** (case["tpow"] % 7)))
            ta = gen.make_traj(x.astype(np.float32), cells, top=t0.topology)
            tb = gen.make_traj(y.astype(np.float32), cells, top=t0.topology)
            exact = mode == "periodic-exact" and np.array_equal(tb.xyz.astype(np.float64), y)
            nontrivial = True
        oa, pairs = observables(ta, periodic, want_discrete=True)
        ob, _p = observables(tb, periodic, want_discrete=True)
        xmax = float(max(np.abs(ta.xyz).max(), np.abs(tb.xyz).max()))
        ctol = 64 * oracle.EPS32 * (xmax + 1)
        for name in ("distances", "closest-contact", "contacts", "contacts-ca", "contacts-closest", "contacts-sidechain", "contacts-sidechain-heavy", "rg", "gyration-eig", "drid"):
            if name not in oa:
                continue
            a, b = np.asarray(oa[name], dtype=np.float64), np.asarray(ob[name], dtype=np.float64)
            tol = ctol * (20 if name == "drid" else 4 if name == "gyration-eig" else 1)
            if a.shape != b.shape or (~(np.abs(a - b) <= tol + 1e-6 * np.abs(a))).any():
                viol.append((name + "/changed", "max change %.3g (tolerance %.3g)" % (float(np.abs(a - b).max()) if a.shape == b.shape else -1, tol)))
        if "angles" in oa:
            a, b = oa["angles"].astype(np.float64), ob["angles"].astype(np.float64)
            atol = 4 * np.minimum(ctol / 0.09 / np.maximum(np.sin(a), 1e-9), np.sqrt(2 * ctol / 0.09)) + 1e-5
            if (~(np.abs(a - b) <= atol)).any():
                viol.append(("angles/changed", "max change %.3g" % float(np.abs(a - b).max())))
            a, b = oa["dihedrals"].astype(np.float64), ob["dihedrals"].astype(np.float64)
            d = np.abs((a - b + np.pi) % (2 * np.pi) - np.pi)
            if (~(d <= 1e-3 + 2e3 * ctol)).any():
                viol.append(("dihedrals/changed", "max change of a torsion (magnitude or sign) %.3g rad" % float(d.max())))
        if not periodic:
            ref_a = md.Trajectory(ta.xyz[:1].copy(), ta.topology)
            ref_b = md.Trajectory(tb.xyz[:1].copy(), tb.topology)
            ra = md.rmsd(md.Trajectory(ta.xyz.copy(), ta.topology), ref_a, 0)
            rb = md.rmsd(md.Trajectory(tb.xyz.copy(), tb.topology), ref_b, 0)
            S = 2 * float(((x[0] - x[0].mean(0)) ** 2).sum(1).mean())
            rt = np.sqrt(1024 * oracle.EPS32 * S) + 8 * ctol
            if (~(np.abs(ra - rb) <= rt)).any():
                viol.append(("rmsd/changed", "RMSD to the co-moved reference changed by %.3g" % float(np.abs(ra - rb).max())))
            sa, sb = oa["sasa"].astype(np.float64), ob["sasa"].astype(np.float64)
            if exact and case["rot"] == 0 and case["nf"] == 1:      # (further frames are rotated as well)
                unit = 1.0 / 100
                radii2 = None
                rel = np.abs(sa - sb).sum() / max(sa.sum(), 1e-9)
                if rel > 0.005 + 3.0 / sa.size / 100:
                    viol.append(("sasa/changed-under-translation", "summed |change| of the per-atom areas is %.3g of the total" % rel))
            else:
                rel = abs(sa.sum() - sb.sum()) / max(sa.sum(), 1e-9)
                if rel > 2.5 / np.sqrt(100) * 0.2:
                    viol.append(("sasa/changed-under-rotation", "total area changed by %.3g (relative)" % rel))
        # discrete observables
        if exact:
            for name in ("baker_hubbard", "wernet_nilsson", "kabsch_sander", "dssp"):
                if name in oa and oa[name] != ob[name]:
                    viol.append((name + "/changed", "%s differs after an exact %s" % (name, "lattice shift" if periodic else "rigid motion")))
        # neighbour sets: modulo pairs within 1e-4 of the cutoff (decided from the untransformed structure)
        if exact or periodic:
            cut = 0.45
            n = ta.n_atoms
            for f in range(len(oa["neighbors"])):
                sa_, sb_ = set(oa["neighbors"][f]), set(ob["neighbors"][f])
                if sa_ != sb_:
                    diff = sorted(sa_ ^ sb_)
                    q = np.arange(0, 12)
                    d = md.compute_distances(ta[f], [[h, k] for h in diff for k in q if k != h], periodic=periodic)[0].reshape(len(diff), -1)
                    amb = [h for h, row in zip(diff, d) if (np.abs(row - cut) < 1e-4 + ctol).any() and not (row < cut - 1e-4 - ctol).any()]
                    if set(diff) - set(amb):
                        viol.append(("neighbors/changed", "frame %d: atoms %s enter or leave the neighbour set" % (f, sorted(set(diff) - set(amb))[:5])))
            la, lb = oa["neighborlist"], ob["neighborlist"]
            for i in range(n):
                if la[i] != lb[i]:
                    diff = sorted(set(la[i]) ^ set(lb[i]))
                    d = md.compute_distances(ta[0], [[i, j] for j in diff], periodic=periodic)[0]
                    if (np.abs(d - cut) >= 1e-4 + ctol).any():
                        viol.append(("neighborlist/changed", "atom %d: neighbours %s differ after the transformation (distances %s)" % (
                            i, diff[:4], np.round(d[:4], 5))))
                        break
    labels.append("exact" if exact else "inexact")
    if not periodic and case["mode"] == "exact" and case["tpow"] >= 6:
        labels.append("translation>=64nm")
    return {"viol": viol, "labels": labels, "nontrivial": bool(nontrivial)}


TECHNIQUE = "metamorphic property-based testing (Hypothesis): observable(before) vs observable(after) under exact and inexact rigid motions and lattice shifts"
LEVEL_TEXT = ("A quantised protein fragment is rotated (the 24 exact cube rotations or random SO(3)), translated (dyadic up to 512 nm or arbitrary up "
              "to 500 nm) or, under periodic boundaries, scattered by per-atom lattice vectors; ~16 observables (distances, closest-contact distance, angles, ...) are recomputed and compared "
              "(identical discrete results under exact transforms, tolerance-bounded continuous ones, neighbour sets modulo borderline pairs).")
LEVEL_NOTE = "One seed structure (perturbation comes from the transformations); tolerances stated in the assumptions."
