"""C08 - per-frame results depend only on that frame, not on neighbouring frames or on the number of threads."""
import hashlib
import json
import os
import subprocess
import sys
import tempfile
import warnings

import numpy as np
from hypothesis import strategies as st

from vlib import files

ID = "C08"
OMP = "2"
SETTINGS = [  # (OMP_NUM_THREADS, OMP_SCHEDULE, OMP_DYNAMIC)
    ("1", "static", "false"), ("2", "static", "false"), ("3", "dynamic,1", "false"), ("5", "static", "false"),
    ("16", "static", "false"), ("16", "static", "false"), ("64", "static", "false"), ("8", "dynamic,1", "true"),
]
RULE = ("case = (protein fragment of 12 residues with hydrogens or a water box fragment, 12-40 frames built from 8 conformations + noise "
        "(one case in two of the short ones: one conformation whose second part approaches / leaves the first rigidly by 0.1 nm per frame; "
        "one case in four: 300 / 520 / 700 frames, every atom wrapped into its frame's cell, single frames taken around multiples of 128 / "
        "256 / 512, four OpenMP settings), "
        "triclinic per-frame varying cell, a frame permutation, index lists); each of 8 OpenMP settings (threads 1,2,3,5,16,16 again,64, "
        "8 with dynamic scheduling / dynamic adjustment) runs in its own process and evaluates ~25 per-frame functions on the whole "
        "trajectory, on every frame alone and on the permuted trajectory; oracle: all settings bit-identical, and "
        "f(t)[i] == f(t[i])[0] == f(t[perm])[perm^-1(i)] bit-for-bit for the C/Cython kernels, 4 ulp for the numpy-only descriptors; "
        "non-trivial = n_frames > threads for at least one setting (a thread handles >= 2 frames); distinct = different case JSON")
QUICK = {"examples": 4, "shards": 8, "budget_s": 170}
THOROUGH = {"examples": 12, "shards": 8, "budget_s": 1700}
ASSUMPTIONS = ["thread counts and OpenMP scheduling policy are chosen by the harness, the interleaving is not: a data race is only caught "
               "probabilistically; state carried across frames in per-thread scratch is deterministic under static scheduling",
               "BLAS is pinned to one thread; numpy-only descriptors (rg, tensors, centres, density) are compared within 4 ulp + 1e-12"]
WHERE = {}
NUMPY_ONLY = {"rg", "gyration", "moments", "com", "cog", "inertia", "density"}


ENUM_SCOPE = ("a fixed handful of representative cases run in every tier before the random ones: four slowly closing two-part "
              "trajectories (conformations 1, 2, 4), one 8280-atom system")


def enumerate_cases(tier):
    for conf, split in ((1, 5), (1, 6), (2, 5), (4, 5)):
        yield {"system": "protein", "nf": 30, "seed": 7 * conf + split, "noise": 0.0, "cell": "none",
               "drift": {"dir": "closing", "split": split, "conf": conf, "axis": (conf + split) % 3}}
    yield {"system": "water", "nf": 2, "seed": 5, "noise": 0.005, "cell": "ortho", "big": 69}


@st.composite
def strategy(draw, tier="quick"):
    case = {"system": draw(st.sampled_from(["protein", "protein", "water"])), "nf": draw(st.integers(12, 20 if tier == "quick" else 40)),
            "seed": draw(st.integers(0, 2 ** 31)), "noise": draw(st.sampled_from([0.0, 0.005, 0.03])),
            "cell": draw(st.sampled_from(["tric-vary", "ortho", "none", "ortho-then-tric", "tric-then-ortho", "tric-c-only"]))}
    if draw(st.integers(0, 3)) == 0:
        # a long trajectory: more frames than any internal block / chunk size is likely to be (256, 512), per-frame varying cell,
        # molecules wrapped atom by atom; single frames are taken around the block boundaries
        case.update(long=True, nf=draw(st.sampled_from([300, 520, 700])), cell=draw(st.sampled_from(["tric-vary", "ortho", "ortho-then-tric", "tric-c-only"])))
    elif case["cell"] != "none":
        case["wrap"] = draw(st.booleans())     # every atom wrapped into the cell on its own (bonds cross the faces)
    if not case.get("long") and draw(st.integers(0, 7)) == 0:
        case.update(big=draw(st.sampled_from([69, 80])), system="water", nf=draw(st.integers(2, 3)), cell=draw(st.sampled_from(["ortho", "none", "tric-vary"])))
        case.pop("wrap", None)
        return case
    if not case.get("long") and draw(st.integers(0, 1)) == 0:
        # successive frames that differ only slightly, as in a real simulation: one conformation, the part of the system after
        # residue `split` approaches the rest rigidly (or moves away) by 0.1 nm per frame, starting (ending) 2.4-3.4 nm apart
        case.update(drift={"dir": draw(st.sampled_from(["closing", "closing", "opening"])), "split": draw(st.integers(4, 7)),
                           "conf": draw(st.sampled_from([1, 2, 4, 6, 7])), "axis": draw(st.integers(0, 2))},
                    nf=draw(st.integers(25, 35)), noise=0.0)
    return case


def build(case):
    import mdtraj as md
    rng = np.random.Generator(np.random.PCG64(case["seed"]))
    with warnings.catch_warnings():
        warnings.simplefilter("ignore")
        if case["system"] == "protein":
            base = md.load(os.path.join(files.VERIF, "seeds", "protein8.h5"))
            keep = [a.index for a in base.topology.atoms if a.residue.index < 12]
            base = base.atom_slice(keep)
        else:
            base = md.load(os.path.join(files.VERIF, "seeds", "water.h5"))
            keep = [a.index for a in base.topology.atoms if a.residue.index < 40]
            base = base.atom_slice(keep)
    if case.get("big"):
        # the same box of water copied on a 4 x 4 x 5 grid: more than 8192 atoms (thresholds of parallel code paths)
        reps = [(i, j, k) for i in range(4) for j in range(4) for k in range(5)][:case["big"]]
        span = float((base.xyz[0].max(axis=0) - base.xyz[0].min(axis=0)).max()) + 0.3
        tops = base.topology
        for _ in range(len(reps) - 1):
            tops = tops.join(base.topology)
        xs = np.concatenate([base.xyz + np.array(r, dtype=np.float32) * np.float32(span) for r in reps], axis=1)
        base = md.Trajectory(xs, tops)
    nf = case["nf"]
    frames = []
    dr = case.get("drift")
    if dr:
        res_of = np.array([a.residue.index for a in base.topology.atoms])
        moving = res_of >= (dr["split"] if case["system"] == "protein" else base.n_residues // 2)
        axis = np.eye(3)[dr["axis"]]
    for f in range(nf):
        x = base.xyz[(dr["conf"] if dr else f) % base.n_frames].astype(np.float64)
        x = x + rng.normal(0, case["noise"] + 1e-4 * (f % 97 if case.get("long") else f), x.shape)
        if dr:
            k = (nf - 1 - f) if dr["dir"] == "closing" else f
            x[moving] += 0.1 * k * axis
        frames.append(x)
    xyz = np.array(frames).astype(np.float32)
    xyz = xyz - xyz.mean(axis=(0, 1)) + 2.5
    t = md.Trajectory(xyz, base.topology, time=np.arange(nf) * 1.0)
    if case["cell"] != "none":
        g = (lambda f: f % 97) if case.get("long") else (lambda f: f)
        # "tric-c-only": a and b (and gamma) are the same in every frame, only the third vector changes (a membrane cell at constant
        # area): the first numbers of the box matrix are bit-identical from frame to frame
        L = np.array([[5.0 + (0.0 if case["cell"] == "tric-c-only" else 0.02 * g(f)), 5.5, 6.0 + 0.01 * g(f)] for f in range(nf)], dtype=np.float32)
        def rect(f):
            # the shape of the cell may change along the trajectory: rectangular first frame(s), skewed later, or the reverse
            return {"ortho": True, "ortho-then-tric": f < 2, "tric-then-ortho": f >= nf - 2}.get(case["cell"], False)
        beta = 90.0 if case["cell"] == "tric-c-only" else 85.0       # (c-only: beta = 90, so that c_x stays exactly 0 as well)
        A = np.array([[90.0, 90.0, 90.0] if rect(f) else [75.0 + 0.1 * g(f), beta, 100.0] for f in range(nf)], dtype=np.float32)
        t.unitcell_lengths, t.unitcell_angles = L, A
        if case.get("long") or case.get("wrap"):
            # every atom wrapped into its frame's cell on its own: bonds, angles and torsions cross the periodic boundary
            H = t.unitcell_vectors.astype(np.float64)
            x = t.xyz.astype(np.float64) - 2.5          # centred on the cell corner, so that it straddles three faces
            for f in range(nf):
                fr = x[f] @ np.linalg.inv(H[f])
                x[f] = (fr - np.floor(fr)) @ H[f]
            t.xyz = x.astype(np.float32)
    return t


def _functions(t):
    import mdtraj as md
    n = t.n_atoms
    rng = np.random.Generator(np.random.PCG64(1234))
    pairs = rng.integers(0, n, (40, 2))
    pairs = pairs[pairs[:, 0] != pairs[:, 1]]
    trip = np.array([[i, i + 1, i + 2] for i in range(0, n - 3, 5)])
    quad = np.array([[i, i + 1, i + 2, i + 3] for i in range(0, n - 4, 5)])
    ref = t  # references are always frame 0 of the *original* trajectory, passed separately
    protein = any(r.is_protein for r in t.topology.residues)
    fns = {
        "distances": lambda x: md.compute_distances(x, pairs),
        "displacements": lambda x: md.compute_displacements(x, pairs),
        "angles": lambda x: md.compute_angles(x, trip),
        "dihedrals": lambda x: md.compute_dihedrals(x, quad),
        "sasa": lambda x: md.shrake_rupley(x, n_sphere_points=60),
        "sasa-residue": lambda x: md.shrake_rupley(x, n_sphere_points=30, mode="residue"),
        "neighbors": lambda x: [np.asarray(v) for v in md.compute_neighbors(x, 0.4, np.arange(5))],
        "neighborlist": lambda x: [np.concatenate([np.sort(v) for v in md.compute_neighborlist(x, 0.35, f)] + [np.zeros(0, int)]) for f in range(x.n_frames)],
        "neighborlist-ordered": lambda x: [np.concatenate([np.asarray(v) for v in md.compute_neighborlist(x, 0.35, f)] + [np.zeros(0, int)]) for f in range(x.n_frames)],
        "contacts": lambda x: md.compute_contacts(x, "all", scheme="closest-heavy" if protein else "closest")[0],
        "contacts-softmin": lambda x: md.compute_contacts(x, "all", scheme="closest-heavy" if protein else "closest", soft_min=True, soft_min_beta=5.0)[0],
        "rg": lambda x: md.compute_rg(x),
        "drid": lambda x: md.compute_drid(x, atom_indices=np.arange(0, n, 7)),
        "gyration": lambda x: md.compute_gyration_tensor(x),
        "moments": lambda x: md.principal_moments(x),
        "com": lambda x: md.compute_center_of_mass(x),
        "cog": lambda x: md.compute_center_of_geometry(x),
        "inertia": lambda x: md.compute_inertia_tensor(x),
        "wernet_nilsson": lambda x: [np.asarray(v) for v in md.wernet_nilsson(x)],
    }
    if t.unitcell_lengths is not None:
        fns["density"] = lambda x: md.density(x)
    if protein:
        fns["dssp"] = lambda x: np.array(md.compute_dssp(x, simplified=False))
        fns["dssp-simplified"] = lambda x: np.array(md.compute_dssp(x))
        fns["kabsch_sander"] = lambda x: [np.concatenate([m.tocoo().row, m.tocoo().col, np.round(m.tocoo().data.astype(np.float64) * 1e12)]) for m in md.kabsch_sander(x)]
        fns["phi"] = lambda x: md.compute_phi(x)[1]
        fns["psi"] = lambda x: md.compute_psi(x)[1]
        fns["chi1"] = lambda x: md.compute_chi1(x)[1]
    return fns


def _digest(a):
    a = np.ascontiguousarray(a)
    return hashlib.sha256(a.tobytes() + str(a.dtype).encode() + str(a.shape).encode()).hexdigest()[:20]


def worker(case_path, out_path):
    """runs inside a process whose OpenMP environment was fixed before start"""
    import mdtraj as md
    case = json.load(open(case_path))
    with warnings.catch_warnings():
        warnings.simplefilter("ignore")
        t = build(case)
        nf = t.n_frames
        perm = np.random.Generator(np.random.PCG64(case["seed"] + 1)).permutation(nf)
        inv = np.argsort(perm)
        tp = t[perm]
        out = {}
        fns = _functions(t)
        alone_frames = list(range(nf))
        if case.get("big"):
            fns = {k: fns[k] for k in ("distances", "neighbors", "neighborlist", "neighborlist-ordered", "rg", "com", "sasa") if k in fns}
        if case.get("long"):
            alone_frames = sorted({f for f in (0, 1, 127, 128, 255, 256, 257, 299, 511, 512, 513, nf - 2, nf - 1) if 0 <= f < nf})
            for slow in ("sasa-residue", "neighborlist", "wernet_nilsson", "dssp-simplified"):
                fns.pop(slow, None)

        def alone(fn):
            return [fn(t[f])[0] if f in alone_frames else None for f in range(nf)]

        def record(name, variant, per_frame):
            if name in NUMPY_ONLY:
                out["%s/%s" % (name, variant)] = [None if v is None else np.asarray(v, dtype=np.float64).ravel().tolist() for v in per_frame]
            else:
                out["%s/%s" % (name, variant)] = [None if v is None else _digest(v) for v in per_frame]
        for name, fn in fns.items():
            try:
                whole = fn(t)
                record(name, "whole", [whole[f] for f in range(nf)])
                record(name, "alone", alone(fn))
                pr = fn(tp)
                record(name, "permuted", [pr[inv[f]] for f in range(nf)])
            except Exception as e:  # noqa
                out["%s/error" % name] = "%s: %s" % (type(e).__name__, str(e)[:200])
        # rmsd / superpose against frame 0 of the original trajectory
        ref = md.Trajectory(t.xyz[:1].copy(), t.topology)

        def rmsd_of(x):
            return md.rmsd(md.Trajectory(x.xyz.copy(), x.topology), md.Trajectory(ref.xyz.copy(), ref.topology), 0)

        def sup_of(x):
            y = md.Trajectory(x.xyz.copy(), x.topology)
            y.superpose(md.Trajectory(ref.xyz.copy(), ref.topology), 0)
            return y.xyz
        for name, fn in (("rmsd", rmsd_of), ("superpose", sup_of)):
            whole = fn(t)
            record(name, "whole", [whole[f] for f in range(nf)])
            record(name, "alone", alone(fn))
            pr = fn(tp)
            record(name, "permuted", [pr[inv[f]] for f in range(nf)])
        # the same through the cached-traces path: the trajectory is centred once, frames are then taken out of it (alone,
        # permuted) and compared with precentered=True
        tc = md.Trajectory(t.xyz.copy(), t.topology)
        tc.center_coordinates()
        refc = tc[0]

        def rmsd_pre(x):
            return md.rmsd(x, refc, 0, precentered=True)
        wholec = rmsd_pre(tc)
        record("rmsd-precentered", "whole", [wholec[f] for f in range(nf)])
        record("rmsd-precentered", "alone", [rmsd_pre(tc[f])[0] if f in alone_frames else None for f in range(nf)])
        prc = rmsd_pre(tc[perm])
        record("rmsd-precentered", "permuted", [prc[inv[f]] for f in range(nf)])
        for par in (True, False):
            r = md.rmsd(md.Trajectory(t.xyz.copy(), t.topology), md.Trajectory(ref.xyz.copy(), ref.topology), 0, parallel=par)
            record("rmsd-parallel=%s" % par, "whole", [r[f] for f in range(nf)])
    json.dump(out, open(out_path, "w"))


def run_case(case):
    viol, labels = [], ["system:" + case["system"], "cell:" + case["cell"]] + (["long:%d" % case["nf"]] if case.get("long") else [])
    here = files.VERIF
    with tempfile.TemporaryDirectory(prefix="vf-c08-") as td:
        cp = os.path.join(td, "case.json")
        json.dump(case, open(cp, "w"))
        procs = []
        settings_ = SETTINGS[::2] if case.get("long") else SETTINGS
        for k, (thr, sched, dyn) in enumerate(settings_):
            env = dict(os.environ)
            env.update(OMP_NUM_THREADS=thr, OMP_SCHEDULE=sched, OMP_DYNAMIC=dyn, OPENBLAS_NUM_THREADS="1", MKL_NUM_THREADS="1",
                       OMP_WAIT_POLICY="passive", PYTHONHASHSEED="0")
            env.pop("MALLOC_CHECK_", None)
            op = os.path.join(td, "o%d.json" % k)
            code = "import sys; sys.path.insert(0, %r); from props import c08; c08.worker(%r, %r)" % (here, cp, op)
            procs.append((k, op, subprocess.Popen([sys.executable, "-c", code], env=env, stdout=subprocess.PIPE, stderr=subprocess.PIPE, text=True)))
        outs = []
        for k, op, p in procs:
            so, se = p.communicate(timeout=900)
            if p.returncode != 0 or not os.path.exists(op):
                if p.returncode is not None and p.returncode < 0:
                    viol.append(("crash/signal%d" % -p.returncode, "setting %s: %s" % (settings_[k], (se or "")[-300:])))
                    outs.append(None)
                    continue
                from vlib.runner import HarnessError
                raise HarnessError("C08 worker failed (setting %s): %s" % (settings_[k], (se or "")[-2000:]))
            outs.append(json.load(open(op)))
    good = [o for o in outs if o is not None]
    if not good or viol:
        return {"viol": viol, "labels": labels, "nontrivial": False}
    base = good[0]
    nf = case["nf"]
    names = sorted({k.split("/")[0] for k in base})
    for name in names:
        if name + "/error" in base:
            labels.append("function-raised:" + name)
            continue
        labels.append("fn:" + name)
        # (i) identical across settings and repeats
        for k, o in enumerate(outs):
            if o is None:
                continue
            for variant in ("whole", "alone", "permuted"):
                key = "%s/%s" % (name, variant)
                if key not in base:
                    continue
                if o.get(key) != base[key]:
                    fr = [f for f in range(nf) if o.get(key, [None] * nf)[f] != base[key][f]]
                    viol.append(("%s/depends-on-threads" % name, "%s differs between OMP setting %s and %s (frames %s)" % (
                        key, settings_[0], settings_[k], fr[:6])))
                    break
            if viol:
                break
        if viol:
            break
        # (ii) whole == alone == permuted
        w = base.get(name + "/whole")
        for variant in ("alone", "permuted"):
            v = base.get("%s/%s" % (name, variant))
            if v is None:
                continue
            for f in range(nf):
                if v[f] is None:
                    continue
                if name in NUMPY_ONLY:
                    a, b = np.array(w[f]), np.array(v[f])
                    if a.shape != b.shape or not np.allclose(a, b, rtol=4 * 2.3e-16 * 4, atol=1e-12):
                        viol.append(("%s/depends-on-other-frames" % name, "frame %d: in the trajectory %s, %s %s" % (f, a[:3], variant, b[:3])))
                        break
                elif w[f] != v[f]:
                    viol.append(("%s/depends-on-other-frames" % name, "frame %d: result inside the trajectory differs bit-wise from the result %s" % (
                        f, "for the frame alone" if variant == "alone" else "in the permuted trajectory")))
                    break
            if viol:
                break
        if viol:
            break
    if not viol:
        a, b, c = base.get("rmsd-parallel=True/whole"), base.get("rmsd-parallel=False/whole"), base.get("rmsd/whole")
        if not (a == b == c):
            viol.append(("rmsd/parallel-flag", "md.rmsd differs bit-wise between parallel=True, parallel=False and the default"))
    return {"viol": viol, "labels": labels, "nontrivial": nf > 5}


TECHNIQUE = "metamorphic / differential testing over schedules: same generated trajectory evaluated under 8 OpenMP configurations, alone, in company and permuted; bit-wise comparison"
LEVEL_TEXT = ("Every generated trajectory is evaluated by ~25 per-frame functions in 8 separate processes with different thread counts and "
              "scheduling policies (one repeated), on the whole trajectory, on each frame alone and on a permuted trajectory; all digests must "
              "agree bit-for-bit (numpy-only descriptors within 4 ulp).")
LEVEL_NOTE = "The harness owns thread count and scheduling policy, not the interleaving; few cases per run because each costs ~10 process-seconds."
