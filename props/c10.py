"""C10 - neighbour searches return exactly the atoms within the cutoff."""
import warnings

import numpy as np
from hypothesis import strategies as st

from vlib import gen, oracle

ID = "C10"
RULE = ("case = (1-2 frames, 1-60 atoms (sometimes up to 400), placement uniform inside / spread over +-1,3,8 cells / inside with 40% moved out by lattice vectors / pairs at 0.3..1.2 cutoffs "
        "split over images / flat sheets and lines (zero extent along one or two axes) / on cell faces and "
        "voxel boundaries / clustered, cell of every C05 kind or none, cutoff from 0.02 nm to half the smallest cell width, query and "
        "haystack subsets incl. overlapping, unsorted and empty); oracle = float64 exact minimum-image distance matrix; compute_neighbors: "
        "exact set modulo pairs within 1e-5 of the cutoff, haystack order, no duplicates; compute_neighborlist: exact per-atom sets, "
        "symmetric, irreflexive, duplicate-free; non-trivial = a true neighbour pair across a periodic boundary, or atoms outside the "
        "primary cell, or a triclinic cell")
QUICK = {"examples": 250, "shards": 12, "budget_s": 170}
THOROUGH = {"examples": 6000, "shards": 16, "budget_s": 1500}
ASSUMPTIONS = ["pairs whose float64 minimum-image distance is within 1e-5 nm (+ 4 ulp of the coordinate magnitude) of the cutoff are not compared",
               "cutoff <= half the smallest cell width (the property's domain)"]


def _skewed(c):
    return c["cells"] is not None and not all(gen.is_ortho(x) for x in c["cells"])


WHERE = {
    # compute_neighborlist misses pairs in skewed cells when the cutoff is close to half the smallest cell width
    # (voxel pruning bound of the triclinic branch); open, see DESIGN.md
    "C10-nlist-skewed-large-cutoff": lambda c, k: _skewed(c) and c["periodic"] and c["cut_frac"] > 0.75 and not c.get("nl_cap"),
}


def _open_keys():
    from vlib.runner import load_findings
    return [f["key"] for f in load_findings(ID) if f.get("status") == "open"]


@st.composite
def strategy(draw, tier="quick"):
    nf = draw(st.integers(1, 2))
    cells = draw(gen.cells(nf, lmin=1.0, lmax=12.0, kinds=["cubic", "ortho", "ortho", "ortho", "mono", "hex", "troct", "rhdo", "tric", "tric", "near-ortho"]))
    big = draw(st.integers(0, 14)) == 0
    n = draw(st.integers(80, 150)) if big else draw(st.integers(1, 60))
    huge = (not big) and draw(st.integers(0, 59)) == 0
    if huge:
        n = draw(st.integers(300, 450))        # enough atoms for every voxel of a grid many cutoffs wide to be populated
    cp = draw(gen.coord_params(n_atoms=n, classes=["inside", "inside", "spread", "spread", "faces", "clustered", "mixed", "mixed", "paired-inside", "paired-inside", "flat"]))
    cp["offset"] = draw(st.sampled_from([0.0, 0.0, 0.0, 30.0]))
    q = sorted(set(draw(st.lists(st.integers(0, n - 1), min_size=1, max_size=min(n, 6)))))
    hs_mode = draw(st.sampled_from(["all", "all", "subset", "shuffled", "empty"]))
    hay = None
    if hs_mode == "subset":
        hay = sorted(set(draw(st.lists(st.integers(0, n - 1), min_size=1, max_size=min(n, 20)))))
    elif hs_mode == "shuffled":
        hay = list(draw(st.permutations(sorted(set(draw(st.lists(st.integers(0, n - 1), min_size=1, max_size=min(n, 12))))))))
    elif hs_mode == "empty":
        hay = []
    case = {"nf": nf, "cells": cells, "coords": cp, "cut_frac": draw(st.sampled_from([0.02, 0.1, 0.25, 0.5, 0.75, 0.8, 0.97, 1.0])),
            "query": q, "haystack": hay, "periodic": draw(st.sampled_from([True, True, True, False])),
            "voxel_snap": draw(st.booleans()), "nl_frame": draw(st.integers(0, nf - 1)),
            "idxv": draw(st.sampled_from([0, 0, 0, 1, 2, 5, 6, 12, 30]))}     # containers of haystack (idxv % 6) and query (idxv // 6)
    if huge:
        case["cut_frac"] = draw(st.sampled_from([0.25, 0.5, 0.5]))
        case["coords"]["cls"] = "inside"
    case["coords"]["pair_scale"] = case["cut_frac"]
    if "C10-nlist-skewed-large-cutoff" in _open_keys() and WHERE["C10-nlist-skewed-large-cutoff"](case, None):
        # excluded by construction: the neighbour-list part of this case runs with the cutoff capped at 0.75 of the
        # half width (compute_neighbors still gets the full cutoff)
        case["nl_cap"] = True
    return case


def run_case(case):
    import mdtraj as md
    viol, labels = [], []
    nf, cells, periodic = case["nf"], case["cells"], case["periodic"]
    Hs = gen.cell_matrices(cells)
    xyz = gen.expand_coords(case["coords"], nf, Hs)
    n = xyz.shape[1]
    traj = gen.make_traj(xyz, cells)
    use_cell = cells is not None and periodic
    if cells is not None:
        Hs = [gen.box_vectors(traj.unitcell_lengths[f], traj.unitcell_angles[f]) for f in range(nf)]
        wmin = min(oracle.widths(H).min() for H in Hs)
        cutoff = float(np.float32(0.5 * wmin * case["cut_frac"] * (0.999 if case["cut_frac"] == 1.0 else 1.0)))
        labels.append("cell:" + cells[0]["kind"])
    else:
        cutoff = float(np.float32(0.05 + 1.5 * case["cut_frac"]))
    if case["voxel_snap"] and cells is not None:
        # put some atoms exactly on multiples of the cutoff along y and z (voxel edges are derived from the cutoff)
        x2 = traj.xyz.copy()
        k = np.arange(n) % 3 == 0
        x2[:, k, 1:] = np.round(x2[:, k, 1:] / cutoff) * cutoff
        traj.xyz = x2
        labels.append("voxel-snapped")
    x = traj.xyz.astype(np.float64)
    xmax = float(np.abs(x).max())
    margin = 1e-5 + 8 * oracle.EPS32 * (xmax + (max(np.abs(H).max() for H in Hs) if cells is not None else 0.0))
    query = case["query"]
    hay = case["haystack"]
    hay_list = list(range(n)) if hay is None else hay
    across = only_image = only_image_rect = False
    with warnings.catch_warnings():
        warnings.simplefilter("ignore")
        kw = {} if hay is None else {"haystack_indices": gen.index_variant(np.array(hay, dtype=int), case.get("idxv", 0))}
        got_nb = None
        if not (hay is not None and len(hay) == 0):
            got_nb = md.compute_neighbors(traj, cutoff, gen.index_variant(np.array(query), case.get("idxv", 0) // 6), periodic=periodic, **kw)
            if len(got_nb) != nf:
                viol.append(("neighbors/n_frames", "%d results for %d frames" % (len(got_nb), nf)))
                got_nb = None
        Ds = []
        for f in range(nf):
            D = oracle.mic_matrix(x[f], Hs[f] if use_cell else None)
            Ds.append(D)
            if use_cell:
                plain = oracle.mic_matrix(x[f], None)
                if ((D < cutoff - margin) & (plain > D + 1e-3)).any():
                    across = True
            if got_nb is None:
                continue
            sure, maybe = [], []
            for h in hay_list:
                ds = [D[h, q] for q in query if q != h]
                if any(d < cutoff - margin for d in ds):
                    sure.append(h)
                elif any(abs(d - cutoff) <= margin for d in ds):
                    maybe.append(h)
            if use_cell and any(all(plain[h, q] >= cutoff for q in query if q != h) for h in sure):
                only_image = True        # a neighbour that is one only through the periodic boundary
                if all(gen.is_ortho(c) for c in cells):
                    only_image_rect = True
            g = [int(v) for v in got_nb[f]]
            if len(set(g)) != len(g):
                viol.append(("neighbors/duplicates", "frame %d: %s" % (f, g[:20])))
            lost = [h for h in sure if h not in g]
            extra = [h for h in g if h not in sure and h not in maybe]
            if lost:
                h = lost[0]
                viol.append(("neighbors/lost", "frame %d: haystack atom %d is %.6f from a query atom (cutoff %.6f) but not returned" % (
                    f, h, min(D[h, q] for q in query if q != h), cutoff)))
            if extra:
                h = extra[0]
                dd = [D[h, q] for q in query if q != h]
                viol.append(("neighbors/extra", "frame %d: atom %d returned, nearest query atom at %s (cutoff %.6f)" % (
                    f, h, ("%.6f" % min(dd)) if dd else "none (it is the only query atom)", cutoff)))
            order = [h for h in hay_list if h in g]
            if not lost and not extra and order != g and len(set(g)) == len(g):
                viol.append(("neighbors/order", "frame %d: result %s is not in haystack order %s" % (f, g[:12], order[:12])))
        # neighbour list of one frame
        f = case["nl_frame"]
        if case.get("nl_cap"):
            cutoff = float(np.float32(0.5 * wmin * 0.75))
            labels.append("excluded:C10-nlist-skewed-large-cutoff")
        nl = md.compute_neighborlist(traj, cutoff, f, periodic=periodic)
        D = Ds[f]
        if len(nl) != n:
            viol.append(("neighborlist/length", "%d lists for %d atoms" % (len(nl), n)))
        else:
            sets = []
            for i in range(n):
                g = [int(v) for v in nl[i]]
                if len(set(g)) != len(g):
                    viol.append(("neighborlist/duplicates", "atom %d: %s" % (i, g[:20])))
                    break
                if i in g:
                    viol.append(("neighborlist/reflexive", "atom %d lists itself" % i))
                    break
                sets.append(set(g))
            if len(sets) == n:
                for i in range(n):
                    sure = {j for j in range(n) if j != i and D[i, j] < cutoff - margin}
                    maybe = {j for j in range(n) if j != i and abs(D[i, j] - cutoff) <= margin}
                    if sure - sets[i]:
                        j = sorted(sure - sets[i])[0]
                        viol.append(("neighborlist/lost", "atoms %d and %d are %.6f apart (cutoff %.6f) but %d is not in the list of %d" % (i, j, D[i, j], cutoff, j, i)))
                        break
                    if sets[i] - sure - maybe:
                        j = sorted(sets[i] - sure - maybe)[0]
                        viol.append(("neighborlist/extra", "atom %d listed for %d at distance %.6f (cutoff %.6f)" % (j, i, D[i, j], cutoff)))
                        break
                    if any(i not in sets[j] for j in sets[i]):
                        viol.append(("neighborlist/asymmetric", "atom %d lists a neighbour that does not list it back" % i))
                        break
    outside = case["coords"]["cls"] in ("spread", "faces", "clustered", "mixed", "paired-inside") and cells is not None
    tric = cells is not None and not all(gen.is_ortho(c) for c in cells)
    labels.append("placement:" + case["coords"]["cls"])
    if across:
        labels.append("pair-across-boundary")
    if only_image:
        labels.append("neighbour-only-through-boundary")
    if only_image_rect:
        labels.append("neighbour-only-through-boundary/rectangular-cell")
    if hay is not None:
        labels.append("haystack-subset" if hay else "haystack-empty")
    if n >= 100:
        labels.append("n>=100")
    return {"viol": viol, "labels": labels, "nontrivial": bool(use_cell and (across or outside or tric))}


TECHNIQUE = "property-based testing (Hypothesis) against a float64 exhaustive minimum-image distance-matrix oracle"
LEVEL_TEXT = ("Generated frames (atoms inside / outside the primary cell, on voxel boundaries, clustered; all cell kinds; cutoffs up to half "
              "the cell width; query / haystack subsets) are searched with compute_neighbors and compute_neighborlist and compared as sets "
              "with a float64 exact minimum-image distance matrix, excluding only pairs within 1e-5 nm of the cutoff; order, duplicates, "
              "symmetry and irreflexivity are asserted.")
LEVEL_NOTE = "Trusts the C05 lattice-search oracle. Atom counts up to 400 in the quick tier (the oracle is O(N^2))."
