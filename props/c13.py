"""C13 - solvent-accessible areas are correct, additive and selection-independent."""
import math
import os
import warnings

import numpy as np
from hypothesis import strategies as st

from vlib import files, gen, oracle

ID = "C13"
RULE = ("case = (structure: isolated atom / two spheres at controlled separation / random cluster of 3-40 atoms / perturbed protein fragment "
        "(bpti, 20-120 atoms) / crowded ball of 530-800 atoms with a probe of 0.5-0.8 nm (every sphere overlapped by > 512 others), 1-4 frames of different conformations, n_sphere_points in {1,2,17,100,960}, probe_radius in [0,0.3], "
        "optional change_radii, mode atom/residue, atom_indices subset (none, proper subset, whole residue, single atom)); oracle = float64 "
        "Shrake-Rupley on the documented golden-section spiral evaluated in single precision, bracketing each atom's count by the points "
        "within 1e-5 nm of a neighbour's surface; closed forms 4*pi*(r+p)^2 and the two-sphere cap formula within quadrature error; "
        "residue = sum of atoms; subset => kept atoms bit-identical to the unrestricted run, others -1; every frame == the single-frame "
        "result; non-trivial = >=2 frames with buried and exposed atoms, or a proper subset")
QUICK = {"examples": 300, "shards": 12, "budget_s": 160}
THOROUGH = {"examples": 2500, "shards": 16, "budget_s": 1500}
ASSUMPTIONS = ["atomic radii are a pinned copy of the documented table (mdtraj/geometry/sasa.py _ATOMIC_RADII) for the elements used",
               "sphere points within 1e-5 nm (+ float32 rounding of the coordinates) of a neighbour's surface are not compared; "
               "no coincident atoms (closer than 0.02 nm) are generated"]
WHERE = {}
RADII = {"H": 0.120, "C": 0.170, "N": 0.155, "O": 0.152, "S": 0.180, "Na": 0.102, "Cl": 0.181, "P": 0.180, "F": 0.147}
_SEED = {}


def spiral(n):
    """the documented golden-section spiral, evaluated in single precision in the documented order"""
    f = np.float32
    i = np.arange(n)
    inc = f(math.pi * (3.0 - math.sqrt(5.0)))
    off = f(2.0 / n)
    y = ((i.astype(f) * off).astype(np.float64) - 1.0 + (np.float64(off) / 2.0)).astype(f)
    r = np.sqrt(1.0 - (y * y).astype(np.float64)).astype(f)
    phi = i.astype(f) * inc
    return np.stack([(np.cos(phi.astype(np.float64)) * r).astype(f), y, (np.sin(phi.astype(np.float64)) * r).astype(f)], 1).astype(np.float64)


def sasa_bracket(x, radii, n, margin):
    """-> (lo, amb): per atom, points certainly accessible / points within `margin` of a neighbour's surface"""
    x = x.astype(np.float64)
    P = spiral(n)
    N = len(x)
    lo = np.zeros(N, int)
    amb = np.zeros(N, int)
    for i in range(N):
        pts = x[i] + radii[i] * P
        d = np.linalg.norm(x[None, :, :] - pts[:, None, :], axis=2) - radii[None, :]
        d[:, i] = np.inf
        m = d.min(1)
        lo[i] = int((m > margin).sum())
        amb[i] = int((np.abs(m) <= margin).sum())
    return lo, amb


@st.composite
def strategy(draw, tier="quick"):
    kind = draw(st.sampled_from(["isolated", "two", "cluster", "cluster", "protein", "protein"]))
    case = {"kind": kind, "seed": draw(st.integers(0, 2 ** 31)), "nf": draw(st.integers(1, 4)),
            "npts": draw(st.sampled_from([1, 2, 17, 100, 100, 960])), "probe": draw(st.sampled_from([0.0, 0.05, 0.14, 0.14, 0.3])),
            "mode": draw(st.sampled_from(["atom", "atom", "residue"])),
            "change": draw(st.sampled_from([None, None, {"C": 0.2}, {"H": 0.1, "O": 0.16}, {"H": 0.0}, {"C": 0.0, "N": 0.3}])),
            "subset": draw(st.sampled_from(["none", "none", "proper", "residue", "single", "proper-unsorted", "proper-list"])),
            "n": draw(st.integers(3, 40)), "sep": draw(st.floats(0.05, 1.0)), "offset": draw(st.sampled_from([0.0, 0.0, 20.0]))}
    if case["change"] and 0.0 in case["change"].values() and case["probe"] == 0.0:
        case["probe"] = 0.05       # (radius 0 and probe 0 would be a sphere of radius 0: no surface to speak of)
    if kind == "protein":
        case["n"] = draw(st.integers(20, 120))
        if case["npts"] == 960:
            case["n"] = min(case["n"], 50)
    if draw(st.integers(0, 29)) == 0:
        # a crowded system with a large probe: hundreds of atoms (more than 256 / 512) overlap every expanded sphere
        case.update(kind="crowded", n=draw(st.integers(530, 800)), probe=draw(st.sampled_from([0.5, 0.8])),
                    npts=draw(st.sampled_from([17, 100])), nf=draw(st.integers(1, 2)), change=None)
    return case


def _bpti():
    if "t" not in _SEED:
        import mdtraj as md
        with warnings.catch_warnings():
            warnings.simplefilter("ignore")
            _SEED["t"] = md.load(os.path.join(files.VERIF, "seeds", "bpti.h5"))
    return _SEED["t"]


def build(case):
    import mdtraj as md
    from mdtraj.core import element as elem
    rng = np.random.Generator(np.random.PCG64(case["seed"]))
    kind, nf = case["kind"], case["nf"]
    if kind == "protein":
        t = _bpti()
        start = int(rng.integers(0, t.n_atoms - case["n"]))
        sub = t.atom_slice(np.arange(start, start + case["n"]))
        frames = [sub.xyz[0] + rng.normal(0, 0.02 * f, sub.xyz[0].shape).astype(np.float32) for f in range(nf)]
        top = sub.topology
        xyz = np.array(frames)
    else:
        top = md.Topology()
        ch = top.add_chain()
        els = ["C", "N", "O", "H", "S", "Na", "Cl"]
        if kind == "isolated":
            n = 1
        elif kind == "two":
            n = 2
        else:
            n = case["n"]
        res = None
        for i in range(n):
            if i % 4 == 0:
                res = top.add_residue("LIG", ch)
            e = els[int(rng.integers(0, len(els)))]
            top.add_atom(e + str(i), elem.get_by_symbol(e), res)
        frames = []
        for f in range(nf):
            if kind == "isolated":
                x = rng.normal(0, 1, (1, 3))
            elif kind == "two":
                u = rng.normal(size=3)
                u /= np.linalg.norm(u)
                x = np.array([np.zeros(3), u * case["sep"] * (1 + 0.1 * f)]) + rng.normal(0, 1, 3)
            elif kind == "crowded":
                # jittered cubic grid (spacing 0.12 nm, jitter 0.02 nm) cut to the n points nearest the origin
                g = np.arange(-7, 8) * 0.12
                G = np.array(np.meshgrid(g, g, g, indexing="ij")).reshape(3, -1).T
                G = G[np.argsort((G * G).sum(1), kind="stable")[:n]]
                x = G + rng.uniform(-0.02, 0.02, G.shape)
            else:
                # random packing with a minimum separation of 0.08 nm
                pts = []
                while len(pts) < n:
                    p = rng.normal(0, 0.25 + 0.02 * n ** (1 / 3.0), 3)
                    if all(np.linalg.norm(p - q) > 0.08 for q in pts):
                        pts.append(p)
                x = np.array(pts)
            frames.append(x)
        xyz = np.array(frames)
    xyz = (xyz + case["offset"]).astype(np.float32)
    return md.Trajectory(xyz, top)


def run_case(case):
    import mdtraj as md
    viol, labels = [], ["kind:" + case["kind"], "npts:%d" % case["npts"], "mode:" + case["mode"], "subset:" + case["subset"]]
    with warnings.catch_warnings():
        warnings.simplefilter("ignore")
        t = build(case)
        n, nf, npts, probe = t.n_atoms, t.n_frames, case["npts"], case["probe"]
        table = dict(RADII)
        if case["change"]:
            table.update(case["change"])
            labels.append("change_radii")
        radii = np.array([table[a.element.symbol] for a in t.topology.atoms], dtype=np.float32).astype(np.float64) + np.float32(probe)
        kw = {"n_sphere_points": npts, "probe_radius": probe}
        before = None
        if case["change"]:
            kw["change_radii"] = case["change"]
            before = md.shrake_rupley(t, mode="atom", n_sphere_points=npts, probe_radius=probe)
        full = md.shrake_rupley(t, mode="atom", **kw)
        if before is not None:
            # change_radii is an argument of one call: the same default call before and after it must agree bit for bit
            after = md.shrake_rupley(t, mode="atom", n_sphere_points=npts, probe_radius=probe)
            if not np.array_equal(before, after):
                k = np.argwhere(before != after)[0]
                viol.append(("change_radii-leaks-into-later-calls", "default call before / after a call with change_radii=%s: frame %d atom %d %.7g vs %.7g" % (
                    case["change"], k[0], k[1], before[tuple(k)], after[tuple(k)])))
        if full.shape != (nf, n):
            return {"viol": [("shape", str(full.shape))], "labels": labels, "nontrivial": False}
        xmax = float(np.abs(t.xyz).max())
        margin = 1e-5 + 8 * oracle.EPS32 * (xmax + 1)
        buried = exposed = False
        for f in range(nf):
            a = full[f].astype(np.float64)
            unit = 4 * math.pi * radii ** 2 / npts
            cnt = a / unit
            r = np.round(cnt)
            if (np.abs(cnt - r) > 1e-3 * np.maximum(1, r)).any() or (r < 0).any() or (r > npts).any():
                i = int(np.argmax(np.abs(cnt - r)))
                viol.append(("area-not-a-point-count", "frame %d atom %d: area %.7g is %.4f sphere points of %.7g nm^2 (radius %.4f incl. probe)" % (
                    f, i, a[i], cnt[i], unit[i], radii[i])))
                break
            lo, amb = sasa_bracket(t.xyz[f], radii, npts, margin)
            bad = (r < lo) | (r > lo + amb)
            if bad.any():
                i = int(np.argmax(bad))
                viol.append(("count-differs-from-reference", "frame %d atom %d: %d accessible points, independent evaluation gives %d (+%d borderline) of %d" % (
                    f, i, int(r[i]), lo[i], amb[i], npts)))
                break
            buried = buried or bool((lo + amb == 0).any())
            exposed = exposed or bool((lo > 0).any())
            # every frame equals its single-frame result
            if nf > 1:
                single = md.shrake_rupley(t[f], mode="atom", **kw)[0]
                if not np.array_equal(single, full[f]):
                    i = int(np.argmax(np.abs(single - full[f])))
                    viol.append(("frame-depends-on-others", "frame %d atom %d: %.7g inside the trajectory, %.7g alone" % (f, i, full[f][i], single[i])))
                    break
        # closed forms
        if not viol and case["kind"] == "isolated":
            want = 4 * math.pi * radii[0] ** 2
            if abs(full[0, 0] - want) > 1e-5 * want:
                viol.append(("isolated-atom", "area %.7g, 4*pi*(r+probe)^2 = %.7g" % (full[0, 0], want)))
        if not viol and case["kind"] == "two":
            for f in range(nf):
                d = float(np.linalg.norm(t.xyz[f, 1].astype(np.float64) - t.xyz[f, 0].astype(np.float64)))
                for i, j in ((0, 1), (1, 0)):
                    ri, rj = radii[i], radii[j]
                    if d >= ri + rj:
                        exp = 4 * math.pi * ri ** 2
                    elif d <= abs(ri - rj):
                        exp = 0.0 if ri < rj else 4 * math.pi * ri ** 2
                    else:
                        h = ri - (d * d + ri * ri - rj * rj) / (2 * d)     # height of the cap of sphere i inside sphere j
                        exp = 4 * math.pi * ri ** 2 - 2 * math.pi * ri * h
                    tolq = 4 * math.pi * ri ** 2 * (2.5 / math.sqrt(npts) + 1.0 / npts)
                    if not abs(full[f, i] - exp) <= tolq:
                        viol.append(("two-spheres", "frame %d atom %d: area %.6g, analytic cap-removed area %.6g (quadrature tolerance %.3g)" % (
                            f, i, full[f, i], exp, tolq)))
                        break
        # residue mode = sum over the residue's atoms
        nontrivial = nf >= 2 and buried and exposed
        if not viol:
            resmap = np.array([a.residue.index for a in t.topology.atoms])
            sel = None
            if case["subset"] != "none" and n > 1:
                rng = np.random.Generator(np.random.PCG64(case["seed"] + 5))
                if case["subset"] == "single":
                    sel = np.array([int(rng.integers(0, n))])
                elif case["subset"] == "residue":
                    rr = int(rng.integers(0, t.n_residues))
                    sel = np.nonzero(resmap == rr)[0]
                else:
                    sel = np.sort(rng.choice(n, max(1, n // 2), replace=False))
                nontrivial = nontrivial or len(sel) < n
            skw = dict(kw)
            if sel is not None:
                # atom_indices is a set of atoms: its order and its container do not matter
                skw["atom_indices"] = sel
                if case["subset"] == "proper-unsorted":
                    skw["atom_indices"] = sel[rng.permutation(len(sel))]
                elif case["subset"] == "proper-list":
                    skw["atom_indices"] = [int(v) for v in sel[::-1]]
            got = md.shrake_rupley(t, mode=case["mode"], **skw)
            # get_mapping=True: the same areas plus, per atom, the column its area is counted in (its own index / its residue's)
            pair = md.shrake_rupley(t, mode=case["mode"], get_mapping=True, **skw)
            want_map = np.arange(n) if case["mode"] == "atom" else resmap
            if not (isinstance(pair, tuple) and len(pair) == 2) or not np.array_equal(np.asarray(pair[0]), got) or \
                    np.asarray(pair[1]).shape != (n,) or not np.array_equal(np.asarray(pair[1]), want_map):
                viol.append(("get_mapping", "mode %s: get_mapping=True must return (the same areas, atom -> column mapping %s...)" % (case["mode"], want_map[:6])))
            if case["mode"] == "atom":
                exp = full.copy()
                if sel is not None:
                    mask = np.ones(n, bool)
                    mask[sel] = False
                    exp[:, mask] = -1
                if got.shape != exp.shape or not np.array_equal(got, exp):
                    if got.shape == exp.shape:
                        f_, i_ = np.argwhere(got != exp)[0]
                        viol.append(("subset-changes-values", "atom %d frame %d: %.7g with atom_indices, %.7g expected (unrestricted value, or -1 for unselected atoms)" % (
                            i_, f_, got[f_, i_], exp[f_, i_])))
                    else:
                        viol.append(("subset-shape", "%s vs %s" % (got.shape, exp.shape)))
            else:
                nres = t.n_residues
                exp = np.zeros((nf, nres))
                selmask = np.ones(n, bool) if sel is None else np.isin(np.arange(n), sel)
                for rr in range(nres):
                    idx = np.nonzero((resmap == rr) & selmask)[0]
                    exp[:, rr] = full[:, idx].astype(np.float64).sum(1) if len(idx) else (-1 if sel is not None else 0.0)
                if got.shape != exp.shape or not np.allclose(got, exp, rtol=16 * oracle.EPS32, atol=1e-7):
                    viol.append(("residue-not-sum-of-atoms", "residue mode differs from the per-residue sum of atom mode (max diff %.3g)" % (
                        float(np.abs(got - exp).max()) if got.shape == exp.shape else -1)))
    if buried:
        labels.append("has-buried-atom")
    return {"viol": viol, "labels": labels, "nontrivial": bool(nontrivial)}


TECHNIQUE = "property-based testing (Hypothesis) against an independent float64 Shrake-Rupley evaluation on the documented point set, closed forms and metamorphic relations"
LEVEL_TEXT = ("Generated structures (isolated atom, two spheres, random clusters, perturbed protein fragments; several frames, point counts, "
              "probes, radii changes) are evaluated and every atom's accessible-point count is bracketed by an independent float64 evaluation "
              "on the same golden-spiral points; closed forms, residue additivity, subset independence (bit-identical kept atoms, -1 elsewhere) "
              "and frame independence are asserted.")
LEVEL_NOTE = "Radii table pinned from the documentation for 9 elements; the spiral is re-generated in single precision exactly as documented."
