"""C04 - topology transformations preserve atoms, residues, chains and bonds (model-based histories)."""
import copy as _copy
import os
import pickle
import warnings

import numpy as np
from hypothesis import strategies as st

from vlib import files

ID = "C04"
RULE = ("case = (topology spec: 1-4 chains with ids from {A,b,1,None}, residues from protein/water/ion/ligand names with repeated, "
        "zero, negative and large resSeq, segment ids, non-contiguous serials, virtual sites, bonds within/across residues and "
        "chains with type/order) + history of <=8 operations from {copy, copy.copy, deepcopy, pickle, subset, join(keep_resSeq), "
        "dataframe round trip, HDF5 round trip, PDB round trip, edits: insert_atom/delete_atom/add_bond/rename}; oracle = plain-"
        "Python model of the spec (filter / concatenate / renumber) compared field by field on the fields the carrier's documented "
        "schema holds, structural invariants, equality/hash laws, independence of copies; non-trivial = >=2 chains with explicit ids "
        "or repeated/zero resSeq or typed bonds or cross-residue bonds or an edit after a copy")
QUICK = {"examples": 250, "shards": 12, "budget_s": 110}
THOROUGH = {"examples": 5000, "shards": 16, "budget_s": 1500}
ASSUMPTIONS = ["carrier schemas: dataframe = 7 atom columns + 4-column bonds (chain ids are not a column); HDF5 = docs/hdf5_format.rst JSON "
               "(no serial, no chain id, no bond type/order unless present in the JSON); PDB = fixed columns, loaded with "
               "standard_names=False; on inputs a carrier cannot represent only the representable fields are compared and == is not asserted",
               "delete_atom_by_index leaving dangling bonds is not asserted (the statement covers independence of edits only)"]
WHERE = {}

RESN = ["ALA", "GLY", "LYS", "HOH", "NA", "CL", "LIG", "PRO", "TIP3"]
ANAMES = ["N", "CA", "C", "O", "CB", "H", "HA", "OW", "HW1", "O5'", "C1", "NA", "CL", "HG21", "D1", "ZN", "SE"]
ELS = ["N", "C", "C", "O", "C", "H", "H", "O", "H", "O", "C", "Na", "Cl", "H", "D", "Zn", "Se"]       # (D: an isotope sharing Z = 1 with H)
BTYPES = [None, "Single", "Double", "Triple", "Aromatic", "Amide"]


@st.composite
def topo_spec(draw, pdb_safe=False):
    nch = draw(st.integers(1, 4))
    ligand_only = draw(st.integers(0, 3)) == 0   # only residues without a bond template: PDB bonds travel via CONECT
    chains = []
    serial = draw(st.sampled_from([1, 1, 5, 100]))
    n_atoms = 0
    for c in range(nch):
        cid = draw(st.sampled_from(["A", "B", "b", "1", None, None]))
        residues = []
        for r in range(draw(st.integers(1, 4))):
            rs = draw(st.sampled_from([None, 0, 1, 1, 2, 7, -3, 9999, 10000]))
            if rs is None:
                rs = r + 1
            name = draw(st.sampled_from(["LIG", "NA", "CL", "LIG", "UNK", "MOL", "ORN", "NME"] if ligand_only else RESN))
            seg = draw(st.sampled_from(["", "", "SEGA", "P1"]))
            atoms = []
            for a in range(draw(st.integers(1, 4))):
                k = draw(st.integers(0, len(ANAMES) - 1))
                el = ELS[k] if draw(st.integers(0, 9)) else None   # None -> virtual site
                atoms.append({"name": ANAMES[k], "el": el, "serial": serial})
                serial += draw(st.sampled_from([1, 1, 1, 3]))
                n_atoms += 1
            residues.append({"name": name, "resSeq": rs, "seg": seg, "atoms": atoms})
        chains.append({"id": cid, "residues": residues})
    bonds = []
    seen = set()
    for _ in range(draw(st.integers(0, min(8, n_atoms * 2)))):
        i, j = draw(st.integers(0, n_atoms - 1)), draw(st.integers(0, n_atoms - 1))
        if i == j or (min(i, j), max(i, j)) in seen:
            continue
        seen.add((min(i, j), max(i, j)))
        bonds.append([min(i, j), max(i, j), draw(st.sampled_from(BTYPES)), draw(st.sampled_from([None, 1, 2, 3]))])
    if ligand_only and n_atoms > 5 and draw(st.booleans()):
        hub = draw(st.integers(0, n_atoms - 1))   # an atom with more than four partners
        for j in range(n_atoms):
            if j != hub and (min(hub, j), max(hub, j)) not in seen and len([b for b in bonds if hub in b[:2]]) < 7:
                seen.add((min(hub, j), max(hub, j)))
                bonds.append([min(hub, j), max(hub, j), None, None])
    return {"chains": chains, "bonds": bonds}


@st.composite
def strategy(draw, tier="quick"):
    spec = draw(topo_spec())
    ops = []
    for _ in range(draw(st.integers(1, 8))):
        ops.append([draw(st.sampled_from(["copy", "copy.copy", "deepcopy", "pickle", "subset", "subset", "subset-all", "join", "join",
                                         "df", "h5", "pdb", "edit-insert", "edit-delete", "edit-bond", "edit-rename", "edit-resseq",
                                         "traj-atom_slice", "traj-stack", "traj-index"])),
                    draw(st.integers(0, 5)), draw(st.integers(0, 5)), draw(st.integers(0, 10 ** 6)), draw(st.booleans())])
    return {"spec": spec, "ops": ops}


# ---------------------------------------------------------------------------------------------- model (flat atom rows)

def flatten(spec):
    """-> (rows, bonds); row = dict(name, el, serial, resname, resSeq, seg, chain (ordinal), cid, res (ordinal))"""
    rows = []
    ri = 0
    for ci, ch in enumerate(spec["chains"]):
        for res in ch["residues"]:
            for a in res["atoms"]:
                rows.append({"name": a["name"], "el": a["el"] or "VS", "serial": a["serial"], "resname": res["name"], "resSeq": res["resSeq"],
                             "seg": res["seg"], "chain": ci, "cid": ch["id"], "res": ri})
            ri += 1
    return rows, [tuple(b) for b in spec["bonds"]]


def renumber(rows):
    """contiguous chain / residue ordinals after dropping atoms (empty residues and chains disappear)"""
    cmap, rmap = {}, {}
    out = []
    for r in rows:
        if r["chain"] not in cmap:
            cmap[r["chain"]] = len(cmap)
        if r["res"] not in rmap:
            rmap[r["res"]] = len(rmap)
        out.append(dict(r, chain=cmap[r["chain"]], res=rmap[r["res"]]))
    return out


def m_subset(model, idx):
    rows, bonds = model
    new = renumber([rows[i] for i in idx])
    pos = {old: k for k, old in enumerate(idx)}
    nb = [(pos[i], pos[j], t, o) for i, j, t, o in bonds if i in pos and j in pos]
    return new, nb


def m_join(a, b, keep):
    ra, ba = a
    rb, bb = b
    nca = (max(r["chain"] for r in ra) + 1) if ra else 0
    nra = (max(r["res"] for r in ra) + 1) if ra else 0
    last = ra[-1]["resSeq"]
    out = [dict(r) for r in ra]
    seen = {}
    for r in rb:
        rs = r["resSeq"]
        if not keep:
            if r["res"] not in seen:
                last += 1
                seen[r["res"]] = last
            rs = seen[r["res"]]
        out.append(dict(r, chain=r["chain"] + nca, res=r["res"] + nra, resSeq=rs))
    n = len(ra)
    return out, list(ba) + [(i + n, j + n, t, o) for i, j, t, o in bb]


def build(model):
    import mdtraj as md
    from mdtraj.core import element as elem
    from mdtraj.core import topology as tp
    rows, bonds = model
    top = md.Topology()
    ch = res = None
    lc = lr = None
    for r in rows:
        if r["chain"] != lc:
            ch = top.add_chain(r["cid"])
            lc = r["chain"]
        if r["res"] != lr:
            res = top.add_residue(r["resname"], ch, r["resSeq"], r["seg"])
            lr = r["res"]
        top.add_atom(r["name"], None if r["el"] == "VS" else elem.get_by_symbol(r["el"]), res, serial=r["serial"])
    atoms = list(top.atoms)
    for i, j, t, o in bonds:
        top.add_bond(atoms[i], atoms[j], type=getattr(tp, t) if t else None, order=o)
    return top


FIELDS = ["name", "el", "serial", "resname", "resSeq", "seg", "chain", "cid", "res"]


def sig(top):
    rows = []
    for a in top.atoms:
        rows.append({"name": a.name, "el": a.element.symbol, "serial": a.serial, "resname": a.residue.name, "resSeq": a.residue.resSeq,
                     "seg": a.residue.segment_id, "chain": a.residue.chain.index, "cid": a.residue.chain.chain_id, "res": a.residue.index})
    bonds = sorted((min(b[0].index, b[1].index), max(b[0].index, b[1].index), None if b.type is None else str(b.type), b.order) for b in top.bonds)
    return rows, bonds


def compare(top, model, fields, tag, viol, bond_detail=True, bonds=True):
    rows, mb = model
    got, gb = sig(top)
    if len(got) != len(rows):
        viol.append((tag + "/n_atoms", "%d atoms, model %d" % (len(got), len(rows))))
        return False
    for i, (g, m) in enumerate(zip(got, rows)):
        for f in fields:
            if g[f] != m[f] and not (f == "cid" and (g[f] or None) == (m[f] or None) and False):
                viol.append((tag + "/atom-field/" + f, "atom %d: %s=%r, expected %r" % (i, f, g[f], m[f])))
                return False
    if bonds:
        mbs = sorted((i, j, t if bond_detail else None, o if bond_detail else None) for i, j, t, o in mb)
        gbs = sorted((i, j, t if bond_detail else None, o if bond_detail else None) for i, j, t, o in gb)
        if mbs != gbs:
            viol.append((tag + "/bonds", "bonds %s, expected %s" % (gbs[:6], mbs[:6])))
            return False
    return True


def structure_ok(top, tag, viol):
    atoms = list(top.atoms)
    if top.n_atoms != len(atoms) or [a.index for a in atoms] != list(range(len(atoms))):
        viol.append((tag + "/indices", "atom indices not contiguous / n_atoms inconsistent"))
        return False
    res = list(top.residues)
    if top.n_residues != len(res) or [r.index for r in res] != list(range(len(res))):
        viol.append((tag + "/indices", "residue indices not contiguous / n_residues inconsistent"))
        return False
    if [c.index for c in top.chains] != list(range(top.n_chains)):
        viol.append((tag + "/indices", "chain indices not contiguous"))
        return False
    for b in top.bonds:
        for a in (b[0], b[1]):
            if not (0 <= a.index < len(atoms)) or atoms[a.index] is not a:
                viol.append((tag + "/bond-foreign-atom", "bond %s refers to an Atom object that is not in this topology's atom list" % (b,)))
                return False
    for r in res:
        if r.chain not in list(top.chains) or r not in r.chain._residues:
            viol.append((tag + "/parent-links", "residue %s not linked to a chain of this topology" % r))
            return False
    return True


class Entry:
    def __init__(self, top, model, fields=None, bonds=True, bond_detail=True):
        self.top, self.model = top, model
        self.fields = list(fields or FIELDS)
        self.bonds, self.bond_detail = bonds, bond_detail


def df_representable(model):
    rows, _ = model
    prev = None
    for r in rows:
        cur = (r["chain"], r["res"], r["resSeq"], r["resname"])
        if prev is not None and prev[0] == cur[0] and prev[1] != cur[1] and prev[2:] == cur[2:]:
            return False   # two consecutive residues of one chain with equal name and number: merged by the carrier
        prev = cur
    return True


def pdb_representable(model, ter=True):
    rows, bonds = model
    if not df_representable(model):
        return False
    if not ter:
        # without TER records two consecutive chains are told apart only by their letter; chains without an id get
        # the letter of their position in the alphabet from the writer
        letters = {}
        for r in rows:
            letters[r["chain"]] = r["cid"] or "ABCDEFGHIJKLMNOPQRSTUVWXYZ"[r["chain"] % 26]
        ls = [letters[k] for k in sorted(letters)]
        if any(a == b for a, b in zip(ls, ls[1:])):
            return False
    for r in rows:
        if len(r["name"]) > 4 or len(r["resname"]) > 3 or not (-999 <= r["resSeq"] <= 9999):
            return False
        if r["cid"] is not None and len(r["cid"]) != 1:
            return False
        if len(r["seg"]) > 4:
            return False
    return True


def run_case(case):
    import mdtraj as md
    viol, labels = [], []
    model0 = flatten(case["spec"])
    with warnings.catch_warnings():
        warnings.simplefilter("ignore")
        t0 = build(model0)
        pool = [Entry(t0, model0)]
        rows0 = model0[0]
        nontrivial = (len({r["chain"] for r in rows0}) >= 2 and any(r["cid"] for r in rows0)) or \
            any(r["resSeq"] in (0,) for r in rows0) or any(t or o for _i, _j, t, o in model0[1]) or \
            any(rows0[i]["res"] != rows0[j]["res"] for i, j, _t, _o in model0[1])
        edited_after_copy = False
        n_copies = 0
        compare(t0, model0, FIELDS, "build", viol)
        for op in case["ops"]:
            if viol:
                break
            name, i1, i2, r, flag = op
            src = pool[i1 % len(pool)]
            rows, bonds = src.model
            n = len(rows)
            tag = name
            new = None
            ident = False
            if n == 0:
                continue
            if name in ("copy", "copy.copy", "deepcopy", "pickle"):
                if name == "copy":
                    out = src.top.copy()
                elif name == "copy.copy":
                    out = _copy.copy(src.top)
                elif name == "deepcopy":
                    out = _copy.deepcopy(src.top)
                else:
                    out = pickle.loads(pickle.dumps(src.top))
                if out is src.top:
                    viol.append((tag + "/identity", "returned the same object"))
                new = Entry(out, ([dict(x) for x in rows], list(bonds)), src.fields, src.bonds, src.bond_detail)
                ident = True
                n_copies += 1
            elif name in ("subset", "subset-all"):
                if name == "subset-all":
                    idx = list(range(n))
                    ident = True
                else:
                    idx = sorted(set((r + k * (1 + r % 3)) % n for k in range(1 + (r // 7) % max(1, n))))
                out = src.top.subset(idx)
                new = Entry(out, m_subset(src.model, idx), src.fields, src.bonds, src.bond_detail)
                n_copies += 1
            elif name == "join":
                oth = pool[i2 % len(pool)]
                if not oth.model[0]:
                    continue
                out = src.top.join(oth.top, keep_resSeq=flag)
                f = [x for x in src.fields if x in oth.fields]
                new = Entry(out, m_join(src.model, oth.model, flag), f, src.bonds and oth.bonds, src.bond_detail and oth.bond_detail)
                tag = "join-keep" if flag else "join-renumber"
            elif name == "df":
                atoms_df, bonds_arr = src.top.to_dataframe()
                out = md.Topology.from_dataframe(atoms_df, bonds_arr)
                rep = df_representable(src.model)
                f = [x for x in src.fields if x not in ("cid",)]
                if not rep:
                    # consecutive residues with equal name and number are one residue to the carrier: only atom-level
                    # columns can be compared
                    f = [x for x in f if x not in ("res", "seg")]
                    labels.append("df-nonrepresentable")
                m2 = ([dict(x, cid=None) for x in rows], list(bonds))
                if not rep:
                    # re-base the residue structure of the model on what the carrier produced (merged residues)
                    got_rows, _gb = sig(out)
                    if len(got_rows) == len(rows):
                        m2 = ([dict(x, res=g["res"], seg=g["seg"]) for x, g in zip(m2[0], got_rows)], m2[1])
                new = Entry(out, m2, f, src.bonds, src.bond_detail)
                if not rep:
                    new.fields = [x for x in src.fields if x != "cid"]
                ident = rep
            elif name in ("h5", "pdb", "traj-atom_slice", "traj-stack", "traj-index"):
                xyz = np.arange(n * 3, dtype=np.float32).reshape(1, n, 3) * 0.01
                tr = md.Trajectory(xyz, src.top)
                if name == "traj-atom_slice":
                    idx = sorted(set((r + 2 * k) % n for k in range(1 + n // 2)))
                    out = tr.atom_slice(idx).topology
                    new = Entry(out, m_subset(src.model, idx), src.fields, src.bonds, src.bond_detail)
                elif name == "traj-index":
                    out = tr[0].topology
                    if out is src.top:
                        viol.append((tag + "/identity", "t[0] shares the Topology object with t"))
                    new = Entry(out, ([dict(x) for x in rows], list(bonds)), src.fields, src.bonds, src.bond_detail)
                    ident = True
                elif name == "traj-stack":
                    oth = pool[i2 % len(pool)]
                    n2 = len(oth.model[0])
                    if n2 == 0:
                        continue
                    tr2 = md.Trajectory(np.zeros((1, n2, 3), dtype=np.float32) + 1.0, oth.top)
                    out = tr.stack(tr2).topology
                    f = [x for x in src.fields if x in oth.fields]
                    new = Entry(out, m_join(src.model, oth.model, True), f, src.bonds and oth.bonds, src.bond_detail and oth.bond_detail)
                elif name == "h5":
                    with files.scratch() as d:
                        fn = os.path.join(d, "t.h5")
                        tr.save(fn)
                        out = md.load(fn).topology
                    f = [x for x in src.fields if x not in ("serial", "cid")]
                    m2 = ([dict(x) for x in rows], list(bonds))
                    new = Entry(out, m2, f, src.bonds, False)
                    # the HDF5 schema stores bonds as index pairs: typed / ordered bonds are not representable
                    ident = all(t is None and o is None for _i, _j, t, o in bonds)
                else:
                    if not pdb_representable(src.model, ter=flag) or "cid" not in src.fields or "serial" not in src.fields:
                        labels.append("pdb-nonrepresentable")
                        continue
                    with files.scratch() as d:
                        fn = os.path.join(d, "t.pdb")
                        tr.save(fn, ter=flag)
                        tag = "pdb" if flag else "pdb-noter"
                        out = md.load(fn, standard_names=False).topology
                    # PDB schema: name, resName, resSeq, chain id, segment id, element; chain ids absent in the input are
                    # assigned by the writer; serial numbers: see DESIGN (compared separately below)
                    f = [x for x in src.fields if x not in ("serial", "cid")]
                    conect_only = all(x["resname"] in ("LIG", "NA", "CL", "MOL") for x in rows)
                    new = Entry(out, ([dict(x) for x in rows], list(bonds)), f, conect_only, False)
                    if conect_only and bonds:
                        labels.append("pdb-conect-bonds")
                    if not conect_only and all(x["resname"] in ("LIG", "NA", "CL", "MOL", "UNK", "ORN", "NME") for x in rows):
                        # hetero / non-standard residues some of which have a template (the reader may add template bonds): every
                        # bond of the saved topology must still be there, and the loaded bond list is the model from here on
                        _gr, gb_ = sig(out)
                        have = {(i_, j_) for i_, j_, _t, _o in gb_}
                        lost = [(i_, j_) for i_, j_, _t, _o in bonds if (min(i_, j_), max(i_, j_)) not in have]
                        if lost:
                            viol.append(("pdb/bonds-lost", "bonds %s of non-standard residues %s are gone after save + load" % (
                                lost[:4], sorted({rows[i_]["resname"] for i_, _j in lost[:4]}))))
                        new = Entry(out, ([dict(x) for x in rows], list(gb_)), f, True, False)
                        if bonds:
                            labels.append("pdb-conect-bonds-template-names")
                    got_rows, _gb = sig(out)
                    for gi, (g, m_) in enumerate(zip(got_rows, rows)):
                        if m_["cid"] is not None and g["cid"] != m_["cid"]:
                            viol.append(("pdb/atom-field/cid", "atom %d chain id %r, expected %r" % (gi, g["cid"], m_["cid"])))
                            break
            elif name.startswith("edit-"):
                top = src.top
                atoms = list(top.atoms)
                k = r % n
                if name == "edit-insert":
                    from mdtraj.core import element as elem
                    res = atoms[k].residue
                    # consistent placement: position k in the topology and the same place inside the residue's atom list
                    top.insert_atom("XX", elem.carbon, res, index=k, rindex=res._atoms.index(atoms[k]), serial=777)
                    nr = dict(rows[k], name="XX", el="C", serial=777)
                    rows2 = rows[:k] + [nr] + rows[k:]
                    b2 = [(i + (i >= k), j + (j >= k), t, o) for i, j, t, o in bonds]
                    src.model = (rows2, b2)
                elif name == "edit-delete":
                    if any(k in (b[0].index, b[1].index) for b in top.bonds) or any(k in (i, j) for i, j, _t, _o in bonds) or n < 2 \
                            or len(atoms[k].residue._atoms) < 2:
                        continue   # dangling bonds / empty residues after a deletion are outside the statement
                    top.delete_atom_by_index(k)
                    rows2 = rows[:k] + rows[k + 1:]
                    b2 = [(i - (i > k), j - (j > k), t, o) for i, j, t, o in bonds]
                    src.model = (rows2, b2)
                elif name == "edit-bond":
                    j = (k + 1 + r // 11) % n
                    if j == k or any((min(k, j), max(k, j)) == (a, b) for a, b, _t, _o in bonds):
                        continue
                    top.add_bond(atoms[k], atoms[j])
                    src.model = (rows, list(bonds) + [(min(k, j), max(k, j), None, None)])
                elif name == "edit-rename":
                    atoms[k].name = "ZZ"
                    atoms[k].residue.name = "RN" + str(r % 7)
                    res_id = rows[k]["res"]
                    src.model = ([dict(x, name="ZZ" if q == k else x["name"], resname=("RN" + str(r % 7)) if x["res"] == res_id else x["resname"])
                                  for q, x in enumerate(rows)], bonds)
                elif name == "edit-resseq":
                    atoms[k].residue.resSeq = 4242
                    res_id = rows[k]["res"]
                    src.model = ([dict(x, resSeq=4242 if x["res"] == res_id else x["resSeq"]) for x in rows], bonds)
                if n_copies:
                    edited_after_copy = True
                labels.append("edit")
            if new is not None:
                if compare(new.top, new.model, new.fields, tag, viol, bond_detail=new.bond_detail, bonds=new.bonds):
                    structure_ok(new.top, tag, viol)
                if not viol and ident:
                    # identity-like transformation on an input the carrier can represent: equal and hash-equal
                    try:
                        eq1, eq2 = (new.top == src.top), (src.top == new.top)
                    except Exception as e:
                        viol.append((tag + "/eq-raised", repr(e)[:200]))
                        eq1 = eq2 = True
                    if not eq1 or not eq2:
                        viol.append((tag + "/not-equal", "T(t) == t is %s, t == T(t) is %s" % (eq1, eq2)))
                    elif name not in ("h5", "df") and hash(new.top) != hash(src.top):
                        viol.append((tag + "/hash", "T(t) == t but hash differs"))
                pool.append(new)
                if len(pool) > 5:
                    pool.pop(0)
            if viol:
                break
            # every pooled topology still equals its own model (independence of copies) and is structurally sound
            for k_, e in enumerate(pool):
                if not compare(e.top, e.model, e.fields, tag + "/pool-independence", viol, bond_detail=e.bond_detail, bonds=e.bonds):
                    break
            if viol:
                break
            # equality laws over all pairs
            for a in range(len(pool)):
                for b in range(a + 1, len(pool)):
                    ta, tb = pool[a].top, pool[b].top
                    try:
                        e1, e2 = ta == tb, tb == ta
                    except Exception as e:
                        viol.append((tag + "/eq-raised", repr(e)[:200]))
                        break
                    if e1 != e2:
                        viol.append((tag + "/eq-asymmetric", "a == b is %s but b == a is %s" % (e1, e2)))
                    elif e1 and hash(ta) != hash(tb):
                        viol.append((tag + "/eq-but-hash-differs", "two topologies compare equal but hash differently"))
                if viol:
                    break
            labels.append("op:" + name)
    return {"viol": viol, "labels": labels, "nontrivial": bool(nontrivial or edited_after_copy)}


TECHNIQUE = "model-based property testing (Hypothesis): transformation histories vs a plain-Python model of the topology spec + equality/hash laws"
LEVEL_TEXT = ("Generated topologies (multi-chain, odd residue numbers, serials, virtual sites, typed bonds) go through generated histories of "
              "copy/deepcopy/pickle/subset/join/dataframe/HDF5/PDB transformations and edits; every result is compared field by field with a "
              "plain-Python model, checked for structural soundness (bonds point at own atoms, contiguous indices), equality/hash laws and "
              "independence of all pooled copies after every step.")
LEVEL_NOTE = "Carrier schemas decide which fields are compared (see assumptions); the PDB carrier's serial renumbering and CONECT records are checked only where the format can hold them."
