"""C01 - save then load reproduces the trajectory in every writable format; the bytes hold what an independent reader extracts."""
import math
import os
import warnings

import numpy as np
from hypothesis import strategies as st

from vlib import files, readers

ID = "C01"
FMTS = ["h5", "xtc", "trr", "dcd", "nc", "netcdf", "ncdf", "mdcrd", "crd", "xyz", "xyz.gz", "lammpstrj", "gro", "pdb", "pdb.gz", "dtr",
        "rst7", "ncrst"]
RULE = ("case = (format from the 18 writable extensions, 1-6 frames, atom count from {1,2,3,8,9,10,11,12,40}, coordinate magnitude class from 1e-3 "
        "nm up to the format's field limit incl. negative values (for the fixed-width formats pdb / gro / mdcrd / rst7 also 9e3 ... 2e8 nm: "
        "both sides of every field width, all-positive or with negative values, up to values that must be refused), non-uniform / offset times, cell none / orthorhombic / triclinic / per-frame "
        "varying, gro precision 1-6, pdb ter/header/bfactors); oracle A = load back: frame and atom counts, coordinates within the format's "
        "stated precision, times and cells where the format stores them, in nm / ps / degrees; oracle B = an independent reader of the bytes "
        "(struct for TRR / DCD / XTC headers, netCDF4 and PyTables directly, fixed-column parsers for mdcrd / xyz / lammpstrj / gro / pdb / "
        "rst7) must extract the same numbers in the format's native units; inputs a format cannot represent must be refused, never "
        "silently altered; non-trivial = >= 2 frames with a cell and (triclinic or varying cell or |x| > 100 nm or 9/10 atoms)")
QUICK = {"examples": 220, "shards": 12, "budget_s": 160}
THOROUGH = {"examples": 6000, "shards": 16, "budget_s": 1700}
ASSUMPTIONS = ["compressed XTC coordinates and DTR frames are read only through mdtraj (no independent xdr3dfcoord / DTR decoder); their headers "
               "(XTC) are parsed independently",
               "precision per format: float32 binary formats 2 ulp after the nm<->Angstrom scaling; XTC 0.5e-3 nm + 1 ulp; text formats half a unit "
               "of the last written digit (+ float32 rounding); PDB beyond -999.999 / 9999.999 Angstrom loses decimals as documented in _format_83"]
WHERE = {}

# capability table (format specifications)
CAP = {
    "h5": dict(time=True, cell="frame", unit="nm"), "xtc": dict(time=True, cell="frame", unit="nm"), "trr": dict(time=True, cell="frame", unit="nm"),
    "dcd": dict(time=False, cell="frame", unit="A"), "nc": dict(time=True, cell="frame", unit="A"), "netcdf": dict(time=True, cell="frame", unit="A"),
    "ncdf": dict(time=True, cell="frame", unit="A"), "mdcrd": dict(time=False, cell="ortho", unit="A"), "crd": dict(time=False, cell="ortho", unit="A"),
    "xyz": dict(time=False, cell=None, unit="A"), "xyz.gz": dict(time=False, cell=None, unit="A"),
    "lammpstrj": dict(time=False, cell="frame", unit="A", need_cell=True), "gro": dict(time=True, cell="frame", unit="nm"),
    "pdb": dict(time=False, cell="first", unit="A"), "pdb.gz": dict(time=False, cell="first", unit="A"),
    "dtr": dict(time=True, cell="frame", unit="A", need_cell=True, need_time=True),
    "rst7": dict(time=True, cell="frame", unit="A", numbered=True), "ncrst": dict(time=True, cell="frame", unit="A", numbered=True),
}


@st.composite
def strategy(draw, tier="quick"):
    fmt = draw(st.sampled_from(FMTS))
    nf = draw(st.integers(1, 6))
    na = draw(st.sampled_from([1, 2, 3, 8, 9, 10, 11, 12, 40]))
    if fmt in ("mdcrd", "crd") and na == 1:
        na = 2     # a one-atom mdcrd frame is indistinguishable from a box line: inherent format ambiguity
    size = draw(st.integers(0, 29))
    if size == 0 and fmt not in ("rst7", "ncrst"):
        nf, na = draw(st.sampled_from([513, 1030])), draw(st.sampled_from([3, 10]))      # more frames than an internal block is likely to hold
    elif size == 1:
        na = draw(st.sampled_from([1000, 2049]))                                           # many atoms (XTC's large-system coder, buffers)
    elif size == 2 and fmt in ("pdb", "gro", "pdb.gz"):
        nf, na = 1, 100001                                                                  # atom numbers beyond the 5-column field
    cell = draw(st.sampled_from([None, "ortho", "ortho", "tric", "vary", "vary-tric", "ortho-then-tric", "tric-then-ortho"]))
    cap = CAP[fmt]
    if cap.get("need_cell") and cell is None:
        cell = "ortho"
    case = {"fmt": fmt, "nf": nf, "na": na, "cell": cell, "seed": draw(st.integers(0, 2 ** 31)),
            "mag": draw(st.sampled_from([0.001, 0.1, 1.0, 1.0, 5.0, 50.0, 99.0, 500.0])),
            "time": draw(st.sampled_from(["arange", "offset", "nonuniform", "large"])),
            "cell_scale": draw(st.sampled_from([1.0, 1.0, 3.0, 30.0]))}
    if fmt in ("pdb", "pdb.gz") and na >= 1000:
        # load_pdb documents that a CRYST1 record implying more than 1000 atoms per nm^3 is taken for a dummy and dropped
        case["cell_scale"] = 30.0
    if fmt in ("pdb", "pdb.gz", "gro", "mdcrd", "crd", "rst7") and size not in (1, 2) and draw(st.integers(0, 3)) == 0:
        # fixed-width fields: magnitudes on both sides of the widths the field can take (with and without negative values, which
        # cost one column more), up to values that must be refused
        case["mag"] = draw(st.sampled_from([9.0e3, 9.9e5, 1.2e6, 9.0e6, 5.0e7, 2.0e8]))
        case["signs"] = draw(st.sampled_from(["both", "positive"]))
    if fmt == "gro":
        case["precision"] = draw(st.integers(1, 6))
    if fmt in ("pdb", "pdb.gz"):
        case["ter"] = draw(st.booleans())
        # header=False omits the MODEL / ENDMDL records (that is all the option does): meaningful for single-model files only,
        # a multi-model file without them is one model by the PDB specification
        case["header"] = draw(st.sampled_from([True, True, False])) if nf == 1 else True
        case["bfactors"] = draw(st.booleans())
    return case


def build(case):
    import mdtraj as md
    rng = np.random.Generator(np.random.PCG64(case["seed"]))
    nf, na, mag = case["nf"], case["na"], case["mag"]
    xyz = rng.uniform(-1, 1, (nf, na, 3)) * mag
    if case.get("signs") == "positive":
        xyz = np.abs(xyz)
        xyz[:, 0] = mag * 0.99
    elif mag >= 50:
        xyz[:, 0] = -mag * 0.99          # reach the negative field limit
    xyz = xyz.astype(np.float32)
    t = {"arange": np.arange(nf, dtype=np.float64), "offset": np.arange(nf) * 2.0 + 5.0,
         "nonuniform": np.cumsum(rng.uniform(0.5, 3.0, nf)), "large": 1e5 + np.arange(nf) * 0.5}[case["time"]]
    tr = md.Trajectory(xyz, files.simple_top(na), time=t.astype(np.float32))
    if case["cell"]:
        s = case["cell_scale"]
        L = np.tile([3.0 * s, 4.0 * s, 5.0 * s], (nf, 1))
        A = np.tile([90.0, 90.0, 90.0], (nf, 1))
        # the skewed cells rotate through the sign patterns of the tilt factors: acute / obtuse in every combination
        SK = [[70.0, 80.0, 100.0], [100.0, 105.0, 110.0], [60.0, 75.0, 80.0], [80.0, 110.0, 70.0], [109.4712, 109.4712, 109.4712], [75.0, 100.0, 115.0],
              # cells with two right angles: hexagonal prisms and the three monoclinic settings
              [90.0, 90.0, 120.0], [90.0, 90.0, 60.0], [90.0, 100.0, 90.0], [80.0, 90.0, 90.0]]
        skew0 = SK[case["seed"] % len(SK)]
        if case["cell"] in ("tric", "vary-tric"):
            A = np.tile(skew0, (nf, 1))
        if case["cell"] in ("ortho-then-tric", "tric-then-ortho"):
            # the box style changes during the trajectory (a box sheared, or relaxed to rectangular, during the run)
            skew = np.array(skew0)
            for f in range(nf):
                tric_here = (f > 0) if case["cell"] == "ortho-then-tric" else (f < nf - 1 or nf == 1)
                if tric_here:
                    A[f] = skew + f % 7          # (bounded: long trajectories must stay valid cells)
        if case["cell"].startswith("vary"):
            L = L * (1 + 0.05 * (np.arange(nf) % 11))[:, None]
            if case["cell"] == "vary-tric":
                A = A + (np.arange(nf) % 11)[:, None] * 0.5
        tr.unitcell_lengths = L.astype(np.float32)
        tr.unitcell_angles = A.astype(np.float32)
    return tr


def coord_tol(fmt, case, xmax_nm):
    """stated precision of the coordinates after the round trip, in nm"""
    e = 1.1920929e-07
    if fmt in ("h5", "trr", "dtr"):
        return 4 * e * xmax_nm + 1e-9
    if fmt in ("dcd", "nc", "netcdf", "ncdf", "ncrst"):
        return 8 * e * xmax_nm + 1e-9
    if fmt == "xtc":
        return (4 * e * xmax_nm + 1e-9) if case["na"] <= 9 else (0.5e-3 + 8 * e * xmax_nm)
    if fmt in ("mdcrd", "crd", "xyz", "xyz.gz", "lammpstrj"):
        return 0.5e-4 + 8 * e * xmax_nm
    if fmt == "gro":
        return 0.5 * 10.0 ** (-case.get("precision", 3)) + 8 * e * xmax_nm
    if fmt in ("pdb", "pdb.gz"):
        xa = xmax_nm * 10
        if xa < 999.999:
            return 0.5e-4 + 8 * e * xmax_nm
        digits_lost = 1 if xa < 9999.99 else 2 if xa < 99999.9 else 3
        return 10.0 ** (-3 + digits_lost) / 10 + 8 * e * xmax_nm   # truncation (not rounding) of the dropped decimals
    if fmt == "rst7":
        return 0.5e-8 + 8 * e * xmax_nm
    raise ValueError(fmt)


def representable(fmt, case, tr):
    """can the format hold this input at all? (otherwise saving must raise, or loading must not return wrong data silently)"""
    xa = float(np.abs(tr.xyz).max()) * 10
    neg = float(tr.xyz.min()) * 10
    if fmt in ("mdcrd", "crd"):
        if case["cell"] in ("tric", "vary-tric", "ortho-then-tric", "tric-then-ortho"):
            return False
        if neg <= -999.9995 or xa >= 9999.9995:
            return False
        if case["cell"] and float(tr.unitcell_lengths.max()) * 10 >= 9999.9995:
            return False
    if fmt in ("xyz", "xyz.gz", "lammpstrj"):
        pass
    if fmt == "rst7" and (neg <= -999.99999995 or xa >= 9999.99999995):
        return False
    if fmt == "gro":
        p = case.get("precision", 3)
        w = p + 5
        if xa / 10 >= 10 ** (w - p - 1) or neg / 10 <= -(10 ** (w - p - 2)):
            return False
    if fmt in ("pdb", "pdb.gz") and case["cell"] and float(tr.unitcell_lengths.max()) * 10 >= 99999.9995:
        return False
    if fmt in ("pdb", "pdb.gz") and (neg <= -9999999.5 or float(tr.xyz.max()) * 10 >= 99999999.5):
        return False     # 8 columns: at most 8 digits, or a sign and 7
    return True


def run_case(case):
    import mdtraj as md
    fmt = case["fmt"]
    cap = CAP[fmt]
    viol, labels = [], ["fmt:" + fmt, "cell:" + str(case["cell"]), "mag:%g" % case["mag"]]
    with warnings.catch_warnings(), files.scratch() as d:
        warnings.simplefilter("ignore")
        tr = build(case)
        nf, na = tr.n_frames, tr.n_atoms
        fn = os.path.join(d, "t." + fmt)
        kw = {}
        if fmt == "gro":
            kw["precision"] = case["precision"]
        if fmt in ("pdb", "pdb.gz"):
            kw["ter"], kw["header"] = case["ter"], case["header"]
            if case["bfactors"]:
                kw["bfactors"] = np.linspace(0, 99, na)
        rep = representable(fmt, case, tr)
        saved = True
        try:
            tr.save(fn, **kw)
        except Exception as e:
            saved = False
            if rep:
                viol.append(("%s/save-raised" % fmt, "representable input refused: %s: %s" % (type(e).__name__, str(e)[:200])))
            else:
                labels.append("refused-nonrepresentable")
        if not saved:
            return {"viol": viol, "labels": labels, "nontrivial": False}
        numbered = cap.get("numbered") and nf > 1
        paths = [fn] if not numbered else [("%s.%0" + str(len(str(nf))) + "d") % (fn, i + 1) for i in range(nf)]
        # ------------------------------------------------------------------ oracle A: load back through mdtraj
        loaded = None
        try:
            if numbered:
                from mdtraj.formats import AmberNetCDFRestartFile, AmberRestartFile
                cls = AmberRestartFile if fmt == "rst7" else AmberNetCDFRestartFile
                parts = []
                for p in paths:
                    with cls(p) as fh:
                        parts.append(fh.read_as_traj(tr.topology))
                loaded = md.join(parts, check_topology=False)
            elif fmt in ("h5", "pdb", "pdb.gz", "gro"):
                loaded = md.load(fn)
            else:
                loaded = md.load(fn, top=tr.topology)
        except Exception as e:
            if rep:
                viol.append(("%s/load-raised" % fmt, "file written by mdtraj cannot be loaded: %s: %s" % (type(e).__name__, str(e)[:200])))
            else:
                labels.append("unloadable-nonrepresentable")
        xmax = float(np.abs(tr.xyz).max())
        ctol = coord_tol(fmt, case, xmax)
        complete_cell = case["cell"] is not None
        if loaded is not None:
            if not rep:
                # both save and load succeeded on an input the format cannot hold: the values must still not be silently different
                labels.append("nonrepresentable-accepted")
            if loaded.xyz.shape != tr.xyz.shape:
                viol.append(("%s/shape" % fmt, "loaded %s, saved %s" % (loaded.xyz.shape, tr.xyz.shape)))
            else:
                err = float(np.abs(loaded.xyz.astype(np.float64) - tr.xyz.astype(np.float64)).max())
                if not err <= ctol:         # (NaN counts as different)
                    viol.append(("%s/coordinates" % fmt, "max |loaded - saved| = %.3g nm, stated precision %.3g nm (|x|max %.4g nm)" % (err, ctol, xmax)))
                if cap["time"]:
                    tt = np.asarray(tr.time, dtype=np.float64)
                    lt = np.asarray(loaded.time, dtype=np.float64)
                    ttol = 4e-7 * np.abs(tt).max() + (1e-3 if fmt in ("gro", "rst7") else 1e-6)
                    if lt.shape != tt.shape or (~(np.abs(lt - tt) <= ttol)).any():
                        viol.append(("%s/time" % fmt, "loaded times %s, saved %s" % (lt[:6], tt[:6])))
                if cap["cell"] and complete_cell:
                    if loaded.unitcell_lengths is None or loaded.unitcell_angles is None:
                        viol.append(("%s/cell-lost" % fmt, "the format stores the cell but the loaded trajectory has none"))
                    else:
                        eL, eA = np.array(tr.unitcell_lengths, dtype=np.float64), np.array(tr.unitcell_angles, dtype=np.float64)
                        if cap["cell"] == "first":
                            eL, eA = np.tile(eL[0], (nf, 1)), np.tile(eA[0], (nf, 1))
                        ltol = {"pdb": 0.5e-4, "pdb.gz": 0.5e-4, "mdcrd": 0.5e-4, "crd": 0.5e-4, "gro": 2e-5, "rst7": 1e-7, "lammpstrj": 1e-5}.get(fmt, 0.0) + 4e-6 * eL.max()
                        atol = {"pdb": 0.5e-2, "pdb.gz": 0.5e-2, "gro": 2e-3, "lammpstrj": 1e-3, "xtc": 1e-4, "trr": 1e-4, "dcd": 1e-4, "rst7": 1e-6}.get(fmt, 2e-5) + 1e-5
                        gL, gA = np.array(loaded.unitcell_lengths, dtype=np.float64), np.array(loaded.unitcell_angles, dtype=np.float64)
                        if gL.shape != eL.shape or (~(np.abs(gL - eL) <= ltol)).any() or (~(np.abs(gA - eA) <= atol)).any():
                            k = 0
                            if gL.shape == eL.shape:
                                bad = (~(np.abs(gL - eL) <= ltol) | ~(np.abs(gA - eA) <= atol)).any(axis=1)
                                k = int(np.argmax(bad))
                            viol.append(("%s/cell" % fmt, "frame %d: loaded cell %s %s, saved %s %s" % (k, gL[min(k, len(gL) - 1)], gA[min(k, len(gA) - 1)], eL[k], eA[k])))
                elif cap["cell"] and not complete_cell and loaded.unitcell_lengths is not None and fmt not in ("dtr",):
                    if np.abs(loaded.unitcell_lengths).max() > 0:
                        viol.append(("%s/cell-fabricated" % fmt, "saved without a cell, loaded with %s" % loaded.unitcell_lengths[0]))
        # ------------------------------------------------------------------ oracle B: independent reader of the bytes
        try:
            _independent(case, tr, paths, viol, ctol, kw)
        except Exception as e:
            if rep:
                viol.append(("%s/independent-reader-failed" % fmt, "%s: %s" % (type(e).__name__, str(e)[:200])))
    nontrivial = nf >= 2 and case["cell"] is not None and (case["cell"] != "ortho" or xmax > 100 or na in (9, 10))
    if case["cell"] in ("ortho-then-tric", "tric-then-ortho") and nf >= 2:
        labels.append("box-style-changes")
    return {"viol": viol, "labels": labels, "nontrivial": bool(nontrivial)}


def _independent(case, tr, paths, viol, ctol, kw):
    fmt = case["fmt"]
    cap = CAP[fmt]
    nf, na = tr.n_frames, tr.n_atoms
    scale = 10.0 if cap["unit"] == "A" else 1.0
    want_x = tr.xyz.astype(np.float64) * scale
    want_t = np.asarray(tr.time, dtype=np.float64)
    has_cell = case["cell"] is not None
    want_c = None
    if has_cell:
        want_c = np.concatenate([np.array(tr.unitcell_lengths, dtype=np.float64) * scale, np.array(tr.unitcell_angles, dtype=np.float64)], 1)
    base = {"pdb.gz": "pdb", "xyz.gz": "xyz", "netcdf": "nc", "ncdf": "nc", "crd": "mdcrd"}.get(fmt, fmt)
    tag = fmt + "/bytes"
    if base == "dtr":
        return
    if base == "xtc":
        frames = readers.read_xtc_headers(paths[0])
        if len(frames) != nf:
            viol.append((tag + "/n_frames", "%d frame headers, %d frames saved" % (len(frames), nf)))
            return
        for f, fr in enumerate(frames):
            if fr["natoms"] != na or fr["natoms2"] != na:
                viol.append((tag + "/natoms", "header says %d atoms" % fr["natoms"]))
                return
            if abs(fr["time"] - want_t[f]) > 4e-7 * abs(want_t[f]) + 1e-6:
                viol.append((tag + "/time", "frame %d header time %r, saved %r ps" % (f, fr["time"], want_t[f])))
                return
            if na > 9 and fr.get("precision") != 1000.0:
                viol.append((tag + "/precision", "frame %d precision field %r" % (f, fr.get("precision"))))
                return
            if na <= 9 and not np.abs(fr["xyz"] - want_x[f]).max() <= ctol:
                viol.append((tag + "/coordinates", "raw floats in the file differ from the coordinates in nm by %.3g" % np.abs(fr["xyz"] - want_x[f]).max()))
                return
            if has_cell and (fr["cell"] is None or np.abs(np.array(fr["cell"]) - want_c[f]).max() > 1e-4 + 1e-5 * want_c[f].max()):
                viol.append((tag + "/cell", "frame %d box in the header %s, saved %s" % (f, fr["cell"], want_c[f])))
                return
        return
    if cap.get("numbered") and nf > 1:
        rs = [readers.read_rst7(p) if base == "rst7" else readers.read_netcdf(p) for p in paths]
        r = {"xyz": np.concatenate([np.asarray(q["xyz"]) for q in rs]), "time": [np.atleast_1d(q["time"])[0] for q in rs],
             "cell": None if rs[0]["cell"] is None else [q["cell"][0] for q in rs]}
    elif base == "trr":
        r = readers.read_trr(paths[0])
    elif base == "dcd":
        r = readers.read_dcd(paths[0])
        if r["nset"] != nf or r["natoms"] != na:
            viol.append((tag + "/header-counts", "header NSET=%d NATOM=%d, saved %d frames of %d atoms" % (r["nset"], r["natoms"], nf, na)))
    elif base == "nc" or base == "ncrst":
        r = readers.read_netcdf(paths[0])
        if r.get("coord_units") not in ("angstrom", "angstroms", None) and base == "nc":
            viol.append((tag + "/units-attribute", "coordinates:units = %r" % r.get("coord_units")))
    elif base == "h5":
        r = readers.read_h5(paths[0])
        if r["length_unit"] != "nanometers" or (r["time"] is not None and r["time_unit"] != "picoseconds"):
            viol.append((tag + "/units-attribute", "units attributes %r / %r" % (r["length_unit"], r["time_unit"])))
    elif base == "mdcrd":
        r = readers.read_mdcrd(paths[0], na, has_cell)
    elif base == "xyz":
        r = readers.read_xyz(paths[0])
    elif base == "lammpstrj":
        r = readers.read_lammpstrj(paths[0])
    elif base == "gro":
        r = readers.read_gro(paths[0])
    elif base == "pdb":
        r = readers.read_pdb(paths[0])
        if r["cell"] is not None:
            r["cell"] = [r["cell"]] * nf
    elif base == "rst7":
        r = readers.read_rst7(paths[0])
    else:
        return
    x = np.asarray(r["xyz"], dtype=np.float64)
    if x.shape != want_x.shape:
        viol.append((tag + "/shape", "independent reader finds %s, saved %s" % (x.shape, want_x.shape)))
        return
    err = float(np.abs(x - want_x).max())
    if not err <= ctol * scale:
        viol.append((tag + "/coordinates", "numbers in the file (%s) differ from the coordinates by %.3g (stated precision %.3g)" % (
            "Angstrom" if scale == 10 else "nm", err, ctol * scale)))
    if cap["time"] and r.get("time") is not None and base != "gro" or (base == "gro" and all(v is not None for v in r["time"])):
        t = np.asarray(r["time"], dtype=np.float64)
        ttol = 4e-7 * np.abs(want_t).max() + (1e-3 if base in ("gro", "rst7") else 1e-6)
        if t.shape != want_t.shape or (~(np.abs(t - want_t) <= ttol)).any():
            viol.append((tag + "/time", "times in the file %s, saved %s ps" % (t[:6], want_t[:6])))
    if cap["cell"] and has_cell:
        if r["cell"] is None or any(c is None for c in r["cell"]):
            viol.append((tag + "/cell-missing", "no cell in the file although the format stores one"))
        else:
            c = np.asarray(r["cell"], dtype=np.float64)
            w = want_c if cap["cell"] != "first" else np.tile(want_c[0], (nf, 1))
            if cap["cell"] == "ortho":
                w = w.copy()
            ltol = {"pdb": 0.5e-3, "mdcrd": 0.5e-3, "gro": 2e-5, "lammpstrj": 1e-4, "rst7": 1e-6}.get(base, 0.0) + 4e-6 * w[:, :3].max()
            atol = {"pdb": 0.5e-2, "gro": 2e-3, "lammpstrj": 1e-3, "trr": 1e-4, "dcd": 1e-4, "rst7": 1e-6}.get(base, 2e-5) + 1e-5
            if c.shape != w.shape or (~(np.abs(c[:, :3] - w[:, :3]) <= ltol)).any() or (~(np.abs(c[:, 3:] - w[:, 3:]) <= atol)).any():
                viol.append((tag + "/cell", "cell in the file %s, saved %s (native units)" % (np.round(c[0], 5), np.round(w[0], 5))))


TECHNIQUE = "property-based testing (Hypothesis): round trip through mdtraj's loader plus differential check against independent readers of the written bytes"
LEVEL_TEXT = ("Generated trajectories (both sides of XTC's 9/10-atom switch, magnitudes up to the field limits, negative values, non-uniform times, "
              "all cell kinds, per-format options) are saved in each of the 18 writable formats, loaded back and compared within the format's "
              "stated precision, and the files are parsed by independent readers that know only the format specifications, checking native "
              "units, layout, header counts, times and cells.")
LEVEL_NOTE = "No independent decoder for compressed XTC coordinates and DTR frames (stated limit); precision table in DESIGN.md / assumptions."
