"""C06 - md.rmsd is the optimal-superposition RMSD and Trajectory.superpose attains it."""
import itertools
import math
import warnings

import numpy as np
from hypothesis import strategies as st

from vlib import gen, oracle

ID = "C06"
RULE = ("case = (N atoms in 3..64 or 1000-4000 covering every N mod 4, 2-5 frames of kind random / near-identical (noise 1e-4..1e-1) / "
        "near-planar / near-collinear / mirror image, centre offset up to 500 nm, reference frame, atom_indices / ref_atom_indices "
        "(none, equal, different, permuted), parallel, precentered); oracle = float64 Kabsch (SVD with determinant correction); "
        "laws: self-RMSD ~ 0, symmetry, invariance under a rigid motion, parallel == serial bit-for-bit, superpose is rigid and proper "
        "and its unfitted RMSD equals the minimum; non-trivial = N%4!=0 or mirror or offset>50nm or different selections")
RULE += ('; widened: exact symmetric / degenerate point sets, small rotations, unsorted selections, frames edited in place and centred again before a precentered call')
QUICK = {"examples": 300, "shards": 12, "budget_s": 100}
THOROUGH = {"examples": 8000, "shards": 16, "budget_s": 1500}
ASSUMPTIONS = ["tolerance: |rmsd - r*| <= min(sqrt(c*eps*S), c*eps*S/(2 r*)) + 8*eps*|x|max with S=(Ga+Gb)/N, c=256 (QCP error is absolute in "
               "the mean-square deviation); near-collinear / exactly planar inputs (smallest singular value of the covariance below "
               "1e-3 of the largest) are labelled ill-conditioned and use c=4096",
               "conformations have >= 3 non-collinear atoms (the property's domain)"]
WHERE = {}


@st.composite
def strategy(draw, tier="quick"):
    big = draw(st.integers(0, 14)) == 0
    n = draw(st.integers(1000, 4000)) if big else draw(st.integers(3, 64))
    nf = draw(st.integers(2, 5))
    kind = draw(st.sampled_from(["random", "random", "near", "near", "planar", "collinear", "mirror", "rot180", "rot180", "smallrot", "smallrot", "symmetric"]))
    if kind == "symmetric":
        n = draw(st.sampled_from([4, 6, 8, 9]))       # tetrahedron, octahedron, cube, centred cube
    case = {"n": n, "nf": nf, "kind": kind, "noise": draw(st.sampled_from([1e-4, 1e-3, 1e-2, 1e-1])),
            "scale": draw(st.sampled_from([0.02, 0.3, 1.0, 3.0])),
            "offset": draw(st.sampled_from([0.0, 0.0, 5.0, 60.0, 500.0])), "seed": draw(st.integers(0, 2 ** 32 - 1)),
            "frame": draw(st.integers(0, nf - 1)), "parallel": draw(st.booleans()), "precentered": draw(st.integers(0, 4)) == 0,
            "sel": draw(st.sampled_from(["none", "none", "equal", "different", "permuted", "different-unsorted"]))}
    if draw(st.integers(0, 2)) == 0:
        case["alias"] = draw(st.sampled_from(["self", "view"]))
    if case["precentered"] and draw(st.booleans()):
        case["recentre"] = True
    if case["precentered"] and draw(st.booleans()):
        case["slice_after"] = draw(st.sampled_from(["rev", "tail", "perm"]))
    if draw(st.integers(0, 19)) == 0:
        # a large system: tens of thousands of atoms spread over tens of nm (sum of squares beyond 1e6 nm^2)
        case.update(n=draw(st.sampled_from([5000, 20000, 60000])), scale=draw(st.sampled_from([5.0, 10.0, 20.0])), nf=2,
                    kind=draw(st.sampled_from(["random", "near", "smallrot"])), frame=draw(st.integers(0, 1)))
    return case


def make(case):
    rng = np.random.Generator(np.random.PCG64(case["seed"]))
    n, nf, kind, s = case["n"], case["nf"], case["kind"], case["scale"]
    base = rng.normal(0, s, (n, 3))
    if kind == "symmetric":
        # highly symmetric point sets with exactly representable coordinates, rigidly moved by exact rotations (signed axis
        # permutations) and dyadic translations: the second-moment tensor is isotropic, the characteristic polynomial of the
        # QCP matrix has multiple roots and intermediate quantities cancel to exactly zero
        cube = np.array(list(itertools.product([-1.0, 1.0], repeat=3)))
        poly = {4: cube[[0, 3, 5, 6]], 6: np.vstack([np.eye(3), -np.eye(3)]), 8: cube, 9: np.vstack([cube, np.zeros((1, 3))])}[n]
        rots = oracle.cube_rotations()
        size = [0.5, 1.0, 2.0][case["seed"] % 3]
        frames = []
        for f in range(nf):
            Rk = rots[int(rng.integers(0, len(rots)))] if f else np.eye(3)
            frames.append((poly * size) @ Rk.T + (np.round(rng.normal(0, 2.0, 3) * 4) / 4 if case["offset"] else 0.0))
        return np.array(frames).astype(np.float32)
    if kind == "planar":
        base[:, 2] *= 1e-4
    if kind == "collinear":
        base[:, 1:] *= 1e-2   # thin needle, still valid (not exactly collinear)
    frames = []
    for f in range(nf):
        if kind in ("near", "planar", "collinear"):
            x = base + rng.normal(0, case["noise"], (n, 3))
        elif kind == "mirror":
            x = base.copy() if f % 2 == 0 else base * np.array([1.0, 1.0, -1.0])
            x = x + rng.normal(0, 1e-3, (n, 3))
        elif kind == "smallrot":
            # rigid copies of one structure turned by 0.01 - 0.5 degrees about random axes (pre-fitted frames): the rotation
            # matrix differs from the identity in first order off the diagonal, in second order on it
            th = math.radians([0.0, 0.01, 0.05, 0.1, 0.2, 0.5][(f + case["seed"]) % 6])
            ax = rng.normal(size=3)
            ax /= np.linalg.norm(ax)
            K = np.array([[0, -ax[2], ax[1]], [ax[2], 0, -ax[0]], [-ax[1], ax[0], 0]])
            Rs = np.eye(3) + math.sin(th) * K + (1 - math.cos(th)) * (K @ K)
            x = (base + rng.normal(0, case["noise"] * 1e-3, (n, 3))) @ Rs.T
            frames.append(x + rng.normal(0, 0.01, 3) + case["offset"])
            continue
        elif kind == "rot180":
            # the frames are copies of one structure turned by (almost) exactly half a turn about a random axis: the optimal
            # rotation between any two of them is 0 or 180 degrees, where the quaternion's scalar part vanishes
            x = base + rng.normal(0, case["noise"] * 1e-2, (n, 3))
            if f % 2:
                ax = rng.normal(size=3)
                ax /= np.linalg.norm(ax)
                x = 2 * np.outer(x @ ax, ax) - x
            frames.append(x + case["offset"])
            continue
        else:
            x = rng.normal(0, s, (n, 3))
        R = oracle.random_rotation(rng)
        x = x @ R.T + rng.normal(0, 1.0, 3) + case["offset"] * (1 + 0.1 * f)
        frames.append(x)
    return np.array(frames).astype(np.float32)


def _sel(case, rng):
    n = case["n"]
    k = max(3, n // 2)
    if case["sel"] == "none":
        return None, None
    a = np.sort(rng.choice(n, k, replace=False))
    if case["sel"] == "equal":
        return a, None
    if case["sel"] == "permuted":
        p = rng.permutation(k)
        return a[p], a[p]
    b = np.sort(rng.choice(n, k, replace=False))
    if case["sel"] == "different-unsorted":
        # two different selections, each in its own arbitrary order: the k-th target atom is paired with the k-th reference atom
        return a[rng.permutation(k)], b[rng.permutation(k)]
    return a, b


def _tol(r, S, xmax, c):
    """c: error of the mean-square deviation in units of eps32*S"""
    e = oracle.EPS32
    E = c * e * S
    if c >= 8.0 / math.sqrt(e):
        # planar class (double root of the characteristic polynomial): a perturbation of the matrix elements moves the root by
        # its square root, and the float32 rounding of coordinates far from the origin (rho = eps32 * |x|max per coordinate) is
        # such a perturbation: dM ~ N * 2 rho * size, lambda ~ N * S / 2  ->  d(msd) = 2 * sqrt(rho * size * S)
        E += 8.0 * math.sqrt(e * xmax * math.sqrt(S / 2.0) * S)        # (order-of-magnitude model: constant 8 calibrated)
    t1 = math.sqrt(E)
    t2 = E / (2 * r) if r > 0 else t1
    return min(t1, t2) + 8 * e * xmax + 1e-7


def _cfac(sv, n):
    """conditioning class of a pair from the singular values of its covariance matrix -> c for _tol.
    generic: 256; needle-like: 256 * min(32, 0.02 / (s2/s1)); planar point sets (third singular value
    ~ 0, always the case for N=3): the QCP characteristic polynomial has a double root at the largest eigenvalue, which
    float32 resolves only to sqrt(eps): c = 8/sqrt(eps).  All scaled by sqrt(N/16) for the float32 accumulation."""
    if sv[0] <= 0:
        return 8.0 / math.sqrt(oracle.EPS32)
    # needle-like covariance (second singular value small against the first): the quartic's roots spread over orders of
    # magnitude and the closed-form solve loses digits in proportion - continuous in the ratio, 256 for ratios >= 0.02
    c = 256.0 * min(32.0, max(1.0, 0.02 / max(sv[1] / sv[0], 1e-12)))
    if abs(sv[2]) / sv[0] < 1e-4:
        c = 8.0 / math.sqrt(oracle.EPS32)
    # The eigenvalues of the QCP matrix are s1+s2+s3', s1-s2-s3', -s1+s2-s3', -s1-s2+s3' (s3' signed).  For mirror-like pairs
    # with s2 = -s3' the largest one is a double root (precision sqrt(eps), like the planar class); if s1 = s2 as well
    # (isotropic, e.g. vertices of a cube against other vertices) it is a triple root, resolved to eps^(1/3) only.
    if (sv[1] + sv[2]) / sv[0] < 1e-3:
        c = max(c, 8.0 / math.sqrt(oracle.EPS32))
        if (sv[0] - sv[1]) / sv[0] < 1e-3:
            c = max(c, 0.5 * oracle.EPS32 ** (1.0 / 3.0) / oracle.EPS32)
    return c * max(1.0, math.sqrt(n / 16.0))


def run_case(case):
    import mdtraj as md
    viol, labels = [], ["kind:" + case["kind"], "Nmod4=%d" % (case["n"] % 4), "sel:" + case["sel"]]
    xyz = make(case)
    n, nf, f = case["n"], case["nf"], case["frame"]
    rng = np.random.Generator(np.random.PCG64(case["seed"] ^ 0xABCDEF))
    ai, rai = _sel(case, rng)
    top = gen.plain_topology(n, element="C", resname="LIG")
    xmax = float(np.abs(xyz).max())
    x64 = xyz.astype(np.float64)
    ta = ai if ai is not None else np.arange(n)
    ra = rai if rai is not None else ta

    def fresh(a=xyz):
        return md.Trajectory(a.copy(), top)

    with warnings.catch_warnings():
        warnings.simplefilter("ignore")
        # reference values
        refs, conds, cfs = [], [], []
        for k in range(nf):
            r, R, S, sv = oracle.kabsch_rmsd(x64[k][ta], x64[f][ra])
            refs.append((r, R, S))
            conds.append(sv[1] / sv[0] if sv[0] > 0 else 0.0)
            cfs.append(_cfac(sv, len(ta)))
            _r2, _R2, _S2, sv_self = oracle.kabsch_rmsd(x64[k][ta], x64[k][ta])
            cfs.append(_cfac(sv_self, len(ta)))
        ill = min(conds) < 1e-3
        c = max(cfs)
        if c > 300 * max(1.0, math.sqrt(len(ta) / 16.0)):
            labels.append("ill-conditioned")
        if c > 1e4:
            labels.append("planar-double-root")
        kw = {}
        if ai is not None:
            kw["atom_indices"] = ai
        if rai is not None:
            kw["ref_atom_indices"] = rai
        pre = case["precentered"] and ai is None
        tgt, ref = fresh(), fresh()
        pre_x = 4 * case["scale"]
        if pre:
            tgt.center_coordinates()
            ref.center_coordinates()
            labels.append("precentered")
            if case.get("recentre"):
                # the frames drift apart after the first centring (edited in place, as imaging / wrapping utilities do) and are
                # centred again before the precentered call
                for k in range(nf):
                    tgt.xyz[k] += (np.array([0.5, -0.3, 0.2]) * (k + 1) * case["scale"]).astype(np.float32)
                tgt.center_coordinates()
                pre_x = 8 * case["scale"]
                labels.append("edited-in-place-and-centred-again")
        order = list(range(nf))
        if pre and case.get("slice_after"):
            # frames taken out of the centred trajectory (a copy, with whatever it caches per frame) before the precentered call
            order = {"rev": order[::-1], "tail": order[1:], "perm": [int(v) for v in rng.permutation(nf)]}[case["slice_after"]]
            tgt = tgt[order]
            labels.append("sliced-after-centring:" + case["slice_after"])
        got = md.rmsd(tgt, ref, f, parallel=case["parallel"], precentered=pre, **kw)
        if got.shape != (len(order),):
            viol.append(("rmsd/shape", str(got.shape)))
        else:
            for j, k in enumerate(order):
                r, _R, S = refs[k]
                if not np.isfinite(got[j]) or abs(got[j] - r) > _tol(r, S, xmax if not pre else pre_x, c):
                    viol.append(("rmsd/value", "frame %d: md.rmsd=%.7g, Kabsch minimum %.7g (tol %.3g, N=%d)" % (k, got[j], r, _tol(r, S, xmax, c), n)))
                    break
        # parallel flag: bit-identical
        a = md.rmsd(fresh(), fresh(), f, parallel=True, **kw)
        b = md.rmsd(fresh(), fresh(), f, parallel=False, **kw)
        if not np.array_equal(a, b):
            viol.append(("rmsd/parallel!=serial", "max diff %.3g" % float(np.abs(a - b).max())))
        # self, symmetry (same selection on both sides)
        if rai is None or case["sel"] == "permuted":
            s_kw = {} if ai is None else {"atom_indices": ai}
            for k in range(nf):
                d = md.rmsd(fresh(), fresh(), k, **s_kw)
                S = refs[k][2]
                Sk = 2 * float(((x64[k][ta] - x64[k][ta].mean(0)) ** 2).sum() / len(ta))
                if d[k] > math.sqrt(c * oracle.EPS32 * Sk) + 8 * oracle.EPS32 * xmax:
                    viol.append(("rmsd/self-not-zero", "frame %d vs itself: %.6g" % (k, d[k])))
                    break
                for j in range(nf):
                    if j == k:
                        continue
                    dj = md.rmsd(fresh(), fresh(), j, **s_kw)[k]
                    rr, _R, SS, sv_ = oracle.kabsch_rmsd(x64[k][ta], x64[j][ta])
                    cc = _cfac(sv_, len(ta))
                    if abs(dj - d[j]) > 2 * _tol(rr, SS, xmax, max(c, cc)):
                        viol.append(("rmsd/asymmetric", "rmsd(%d->%d)=%.7g but rmsd(%d->%d)=%.7g" % (k, j, d[j], j, k, dj)))
                        break
                if viol:
                    break
        # invariance under a rigid motion of the target
        R = oracle.random_rotation(rng)
        moved = (x64 @ R.T + rng.normal(0, 2.0, 3)).astype(np.float32)
        gm = md.rmsd(fresh(moved), fresh(), f, **kw)
        for k in range(nf):
            r, _R, S = refs[k]
            if not abs(gm[k] - r) <= _tol(r, S, max(xmax, float(np.abs(moved).max())), c) + 16 * oracle.EPS32 * xmax:
                viol.append(("rmsd/not-rigid-invariant", "frame %d: %.7g after a rigid motion, minimum %.7g" % (k, gm[k], r)))
                break

        # superpose
        t = fresh()
        if case.get("alias") == "self":
            # the trajectory superposed onto one of its own frames (the reference shares its memory)
            t.superpose(t, frame=f, atom_indices=ai, ref_atom_indices=rai, parallel=case["parallel"])
            labels.append("superpose-onto-own-frame")
        elif case.get("alias") == "view":
            t.superpose(t.slice(slice(None), copy=False), frame=f, atom_indices=ai, ref_atom_indices=rai, parallel=case["parallel"])
            labels.append("superpose-onto-view-of-itself")
        else:
            t.superpose(fresh(), frame=f, atom_indices=ai, ref_atom_indices=rai, parallel=case["parallel"])
        y = t.xyz.astype(np.float64)
        for k in range(nf):
            r, Rk, S = refs[k]
            # (1) rigid: all pair distances from a few anchor atoms unchanged
            anchors = [0, n // 2, n - 1]
            for a0 in anchors:
                d0 = np.linalg.norm(x64[k] - x64[k][a0], axis=1)
                d1 = np.linalg.norm(y[k] - y[k][a0], axis=1)
                if np.abs(d0 - d1).max() > 64 * oracle.EPS32 * (xmax + 1):
                    viol.append(("superpose/not-rigid", "frame %d: interatomic distances changed by %.3g" % (k, np.abs(d0 - d1).max())))
                    break
            if viol:
                break
            # (2) proper rotation: signed volume of the first non-degenerate quadruple keeps its sign
            if n >= 4:
                q = _quad(x64[k], 64 * oracle.EPS32 * (xmax + 1))
                if q is not None:
                    v0 = np.linalg.det(x64[k][q[1:]] - x64[k][q[0]])
                    v1 = np.linalg.det(y[k][q[1:]] - y[k][q[0]])
                    if v0 * v1 < 0:
                        viol.append(("superpose/improper-rotation", "frame %d: chirality inverted" % k))
                        break
            # (3) attains the minimum: unfitted RMS deviation of the alignment atoms
            dev = math.sqrt(float(((y[k][ta] - x64[f][ra]) ** 2).sum() / len(ta)))
            # superposition error: rotation error ~ eps * size / conditioning ; generous but far below realistic defects
            size = math.sqrt(S / 2)
            # (the value of md.rmsd near zero is a difference of large numbers and carries _tol; the *rotation* does not: its error
            # is the eigenvalue error over the spectral gap, ~ c * eps32, so the deviation is off by that angle times the size at most)
            # Needle-like and planar point sets (near-double root): the eigenvector itself is ill-determined, _tol stays.
            if c > 300 * max(1.0, math.sqrt(len(ta) / 16.0)):
                slack = _tol(r, S, xmax, c) + 2e-3 * size + 32 * oracle.EPS32 * xmax
            else:
                slack = 2e-4 * size + 32 * oracle.EPS32 * xmax + 1e-7
            if dev > r + slack or dev < r - slack:
                viol.append(("superpose/not-optimal", "frame %d: unfitted deviation after superpose %.7g, Kabsch minimum %.7g (N=%d)" % (k, dev, r, len(ta))))
                break
    nontrivial = case["n"] % 4 != 0 or case["kind"] == "mirror" or case["offset"] > 50 or case["sel"] in ("different", "permuted", "different-unsorted")
    if case["offset"] > 50:
        labels.append("offset>50nm")
    if n >= 1000:
        labels.append("N>=1000")
    return {"viol": viol, "labels": labels, "nontrivial": bool(nontrivial)}


def _quad(x, res=0.0):
    """four consecutive atoms spanning a volume whose sign cannot be changed by coordinate rounding of size res: the height of
    the tetrahedron (volume / base area ~ |v| / s^2) must exceed the rounding of the input and of the superposed output"""
    n = len(x)
    for i in range(0, min(n - 3, 8)):
        v = np.linalg.det(x[i + 1:i + 4] - x[i])
        s = np.abs(x[i + 1:i + 4] - x[i]).max()
        if s > 0 and abs(v) > 1e-3 * s ** 3 and abs(v) > 8 * res * s ** 2:
            return [i, i + 1, i + 2, i + 3]
    return None


TECHNIQUE = "property-based testing (Hypothesis) against a float64 Kabsch/SVD oracle + metamorphic laws (symmetry, rigid motion, parallel flag)"
LEVEL_TEXT = ("Generated conformation pairs (all N mod 4, mirror images, near-planar, large offsets, separate selections) are compared with a "
              "float64 SVD Kabsch minimum; self/symmetry/rigid-motion/parallel laws are asserted; superpose must be a proper rigid motion "
              "whose unfitted deviation equals the minimum.")
LEVEL_NOTE = "Trusts numpy SVD in float64. Tolerances derived from the QCP error model (absolute in MSD), constants calibrated on the unchanged tree."
