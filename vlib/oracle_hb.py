"""Reference implementations for C14 / C15, written from the published definitions (Kabsch & Sander 1983; DSSP 2.2 rules):
float64 Kabsch-Sander backbone hydrogen-bond energies with the documented hydrogen placement, and the DSSP code assignment
derived from a given hydrogen-bond relation.  Nothing here calls mdtraj."""
import numpy as np
def backbone_indices(top):
    out=[]
    for r in top.residues:
        d={}
        for a in r.atoms:
            if a.name in ('N','CA','C','O') and a.name not in d: d[a.name]=a.index
        out.append((d.get('N',-1),d.get('CA',-1),d.get('C',-1),d.get('O',-1), r.name=='PRO', r.chain.index))
    return out
def ks_reference(xyz, bb):
    """returns dict donor -> list of (energy, acceptor) best two, energies float64; and margin info"""
    x=xyz.astype(np.float64); n=len(bb)
    skip=[min(b[:4])<0 for b in bb]
    H=[None]*n
    for i in range(n):
        if skip[i]: continue
        if i==0: H[i]=x[bb[i][0]].copy(); continue
        pc,po=bb[i-1][2],bb[i-1][3]
        if pc<0 or po<0: H[i]=None; continue   # undocumented
        v=x[pc]-x[po]; H[i]=x[bb[i][0]]+0.1*v/np.linalg.norm(v)
    def E(d,a):
        rn=x[bb[d][0]]; rh=H[d]; rc=x[bb[a][2]]; ro=x[bb[a][3]]
        e=2.7888*(1/np.linalg.norm(rn-ro)+1/np.linalg.norm(rh-rc)-1/np.linalg.norm(rh-ro)-1/np.linalg.norm(rn-rc))
        return max(e,-9.9)
    cand={i:[] for i in range(n)}
    amb=set(); undefined=set()
    for i in range(n):
        if skip[i]: continue
        for j in range(i+1,n):
            if skip[j]: continue
            d2=((x[bb[i][1]]-x[bb[j][1]])**2).sum()
            if abs(d2-0.81)<1e-4: amb.add((i,j))
            if d2<0.81:
                for d,a in ((i,j),(j,i)):
                    if d==j and j==i+1: continue     # rj == ri+1: only donor=ri acceptor=rj computed
                    if bb[d][4]: continue
                    if H[d] is None: undefined.add(d); continue
                    e=E(d,a)
                    if abs(e+0.5)<1e-3: amb.add((d,a))
                    if e<-0.5: cand[d].append((e,a))
    best={d:sorted(v)[:2] for d,v in cand.items()}
    return best, amb, undefined, skip
def dssp_from_hbonds(hb, ca_xyz, chain, skip):
    """hb: set of (donor, acceptor). returns list of codes. Rules per DSSP 2.2 (Kabsch&Sander)."""
    n=len(chain)
    tb=lambda d,a: (d,a) in hb
    ss=[' ']*n
    # bridges
    def test_bridge(i,j):
        a,b,c=i-1,i,i+1; d,e,f=j-1,j,j+1
        if a>=0 and c<n and chain[a]==chain[c] and d>=0 and f<n and chain[d]==chain[f]:
            if (tb(c,e) and tb(e,a)) or (tb(f,b) and tb(b,d)): return 'P'
            if (tb(c,d) and tb(f,a)) or (tb(e,b) and tb(b,e)): return 'A'
        return None
    bridges=[]
    for i in range(1,n-4):
        for j in range(i+3,n-1):
            t=test_bridge(j,i)
            if t is None or skip[i] or skip[j]: continue
            found=False
            for br in bridges:
                if br['t']!=t or i!=br['i'][-1]+1: continue
                if t=='P' and br['j'][-1]+1==j: br['i'].append(i); br['j'].append(j); found=True; break
                if t=='A' and br['j'][0]-1==j: br['i'].append(i); br['j'].insert(0,j); found=True; break
            if not found: bridges.append({'t':t,'i':[i],'j':[j],'ci':chain[i],'cj':chain[j]})
    bridges.sort(key=lambda b:(b['ci'],b['i'][0]))
    i=0
    while i<len(bridges):
        j=i+1
        while j<len(bridges):
            bi,bj=bridges[i],bridges[j]
            ibi,iei,jbi,jei=bi['i'][0],bi['i'][-1],bi['j'][0],bi['j'][-1]
            ibj,iej,jbj,jej=bj['i'][0],bj['i'][-1],bj['j'][0],bj['j'][-1]
            if bi['t']!=bj['t'] or chain[min(ibi,ibj)]!=chain[max(iei,iej)] or chain[min(jbi,jbj)]!=chain[max(jei,jej)] or ibj-iei>=6 or (iei>=ibj and ibi<=iej):
                j+=1; continue
            if bi['t']=='P': bulge=(jbj>jbi) and ((jbj-jei<6 and ibj-iei<3) or (jbj-jei<3))
            else: bulge=(jbj<jbi) and ((jbi-jej<6 and ibj-iei<3) or (jbi-jej<3))
            if bulge:
                bi['i']=bi['i']+bj['i']
                bi['j']=bi['j']+bj['j'] if bi['t']=='P' else bj['j']+bi['j']
                del bridges[j]
            else: j+=1
        i+=1
    for br in bridges:
        code='E' if len(br['i'])>1 else 'B'
        for k in range(br['i'][0],br['i'][-1]+1):
            if ss[k]!='E': ss[k]=code
        for k in range(br['j'][0],br['j'][-1]+1):
            if ss[k]!='E': ss[k]=code
    # helices
    NONE,START,END,SE,MID=0,1,2,3,4
    hf={s:[NONE]*n for s in (3,4,5)}
    chains={}
    for r in range(n): chains.setdefault(chain[r],[]).append(r)
    for cid in sorted(chains):
        for s in (3,4,5):
            for i in chains[cid]:
                if i+s<n and tb(i+s,i) and chain[i]==chain[i+s]:
                    hf[s][i+s]=END
                    for j in range(i+1,i+s):
                        if hf[s][j]==NONE: hf[s][j]=MID
                    hf[s][i]=SE if hf[s][i]==END else START
    st=lambda s,i: hf[s][i] in (START,SE)
    for i in range(1,n-4):
        if st(4,i) and st(4,i-1):
            for j in range(i,i+4): ss[j]='H'
    for i in range(1,n-3):
        if st(3,i) and st(3,i-1):
            if all(ss[j] in (' ','G') for j in range(i,i+3)):
                for j in range(i,i+3): ss[j]='G'
    for i in range(1,n-5):
        if st(5,i) and st(5,i-1):
            if all(ss[j] in (' ','I','H') for j in range(i,i+5)):
                for j in range(i,i+5): ss[j]='I'
    # bends
    bend=[False]*n; bend_amb=[False]*n
    for i in range(2,n-2):
        if chain[i-2]==chain[i+2] and not skip[i-2] and not skip[i] and not skip[i+2]:
            u=ca_xyz[i-2]-ca_xyz[i]; v=ca_xyz[i]-ca_xyz[i+2]
            k=np.arccos(np.clip(u@v/np.sqrt((u@u)*(v@v)),-1,1))
            bend[i]=k>np.radians(70); bend_amb[i]=abs(k-np.radians(70))<1e-4
    for i in range(1,n-1):
        if ss[i]==' ' and not skip[i]:
            turn=False
            for s in (3,4,5):
                for k in range(1,s):
                    if i>=k and st(s,i-k): turn=True
            if turn: ss[i]='T'
            elif bend[i]: ss[i]='S'
    return ss, bend_amb
