"""float64 reference computations shared by several properties (nothing here calls mdtraj)."""
import itertools
import math

import numpy as np

EPS32 = float(np.finfo(np.float32).eps)


def widths(H):
    a, b, c = H
    V = abs(np.linalg.det(H))
    return np.array([V / np.linalg.norm(np.cross(b, c)), V / np.linalg.norm(np.cross(c, a)),
                     V / np.linalg.norm(np.cross(a, b))])


def reduce_basis(H):
    """pairwise (Gauss/Lagrange style) reduction of a 3D lattice basis; rows are vectors; the lattice is unchanged"""
    H = np.array(H, dtype=np.float64)
    for _ in range(100):
        changed = False
        order = np.argsort([-np.dot(h, h) for h in H])
        for i in order:
            for j in range(3):
                if i == j:
                    continue
                k = np.round(np.dot(H[i], H[j]) / np.dot(H[j], H[j]))
                if k != 0:
                    new = H[i] - k * H[j]
                    if np.dot(new, new) < np.dot(H[i], H[i]) * (1 - 1e-12):
                        H[i] = new
                        changed = True
        if not changed:
            break
    return H


def mic(d, H):
    """exact minimum-image vectors.  d: (P,3) float64 differences; H: rows are the cell vectors.
    Searches every lattice translation that could possibly be shorter than the rounded-fraction representative.
    -> (vectors (P,3), lengths (P,))"""
    d = np.asarray(d, dtype=np.float64).reshape(-1, 3)
    if len(d) == 0:
        return d.copy(), np.zeros(0)
    H = reduce_basis(H)  # same lattice, short basis => a small search box is provably sufficient
    Hinv = np.linalg.inv(H)
    s = d @ Hinv
    red = d - np.round(s) @ H
    w = widths(H)
    r = np.linalg.norm(red, axis=1)
    # a representative shorter than half the smallest cell width is already the unique minimum image
    todo = np.nonzero(r >= 0.5 * w.min() * (1 - 1e-9))[0]
    if len(todo) < len(d):
        best_v = red.copy()
        best = r.copy()
        if len(todo):
            sub_v, sub_m = _mic_search(red[todo], r[todo], H, w)
            best_v[todo] = sub_v
            best[todo] = sub_m
        return best_v, best
    return _mic_search(red, r, H, w)


def _mic_search(red, r, H, w):
    d = red
    # a lattice vector n.H with |n_i| > (|red| + |red|)/w_i cannot bring the image closer than |red|
    K = int(math.ceil(2.0 * r.max() / w.min())) + 1
    if K > 14:
        raise AssertionError("oracle search box too large (K=%d); cell too degenerate for the generator's contract" % K)
    rng = np.arange(-K, K + 1)
    shifts = np.array(list(itertools.product(rng, rng, rng)), dtype=np.float64) @ H  # (S,3)
    best_v = red.copy()
    best = r.copy()
    # chunk over pairs and shifts to bound memory (<= ~30 MB per block)
    for p0 in range(0, len(d), 2048):
        sl = slice(p0, p0 + 2048)
        rb = red[sl]
        bv = best_v[sl]
        bb = best[sl]
        ar = np.arange(len(rb))
        for lo in range(0, len(shifts), 512):
            sh = shifts[lo:lo + 512]
            cand = rb[:, None, :] + sh[None, :, :]
            n = np.sqrt((cand * cand).sum(axis=2))
            k = n.argmin(axis=1)
            m = n[ar, k]
            upd = m < bb
            bb[upd] = m[upd]
            bv[upd] = cand[ar, k][upd]
    return best_v, best


def mic_matrix(x, H):
    """all-pairs minimum-image distance matrix of one frame (x: (N,3) float64)"""
    n = len(x)
    iu = np.triu_indices(n, 1)
    if H is None:
        dd = np.linalg.norm(x[iu[1]] - x[iu[0]], axis=1)
    else:
        dd = mic(x[iu[1]] - x[iu[0]], H)[1]
    D = np.zeros((n, n))
    D[iu] = dd
    return D + D.T


def lattice_residual(v, H):
    """distance of H^-T v from the nearest integer vector, per row"""
    s = np.asarray(v, dtype=np.float64) @ np.linalg.inv(H)
    return np.abs(s - np.round(s)).max(axis=-1)


def angle(u, v):
    """angle in [0,pi] between rows of u and v, well conditioned everywhere"""
    c = np.cross(u, v)
    return np.arctan2(np.linalg.norm(c, axis=-1), (u * v).sum(-1))


def dihedral(b1, b2, b3):
    """IUPAC torsion from three consecutive bond vectors (rows)"""
    c1 = np.cross(b2, b3)
    c2 = np.cross(b1, b2)
    p1 = (b1 * c1).sum(-1) * np.linalg.norm(b2, axis=-1)
    p2 = (c1 * c2).sum(-1)
    return np.arctan2(p1, p2)


def kabsch_rmsd(A, B):
    """minimal RMSD over proper rotations + translations between (N,3) float64 sets; also returns R, with
    (A - cA) @ R best fitting (B - cB)"""
    A = np.asarray(A, dtype=np.float64)
    B = np.asarray(B, dtype=np.float64)
    ca, cb = A.mean(0), B.mean(0)
    A0, B0 = A - ca, B - cb
    C = A0.T @ B0
    U, S, Vt = np.linalg.svd(C)
    d = np.sign(np.linalg.det(U @ Vt))
    D = np.diag([1.0, 1.0, d if d != 0 else 1.0])
    R = U @ D @ Vt
    Ga, Gb = (A0 * A0).sum(), (B0 * B0).sum()
    msd = (Ga + Gb - 2.0 * (S[0] + S[1] + S[2] * (d if d != 0 else 1.0))) / len(A)
    S = S.copy()
    S[2] *= (d if d != 0 else 1.0)       # signed: negative when the best orthogonal fit is improper (mirror-like pair)
    return math.sqrt(max(msd, 0.0)), R, (Ga + Gb) / len(A), S


def random_rotation(rng):
    q = rng.normal(size=4)
    q /= np.linalg.norm(q)
    a, b, c, d = q
    return np.array([[a * a + b * b - c * c - d * d, 2 * (b * c - a * d), 2 * (b * d + a * c)],
                     [2 * (b * c + a * d), a * a - b * b + c * c - d * d, 2 * (c * d - a * b)],
                     [2 * (b * d - a * c), 2 * (c * d + a * b), a * a - b * b - c * c + d * d]])


def cube_rotations():
    """the 24 proper rotations of the cube (exact in floating point: signed permutation matrices)"""
    out = []
    for perm in itertools.permutations(range(3)):
        for signs in itertools.product([1, -1], repeat=3):
            M = np.zeros((3, 3))
            for i, p in enumerate(perm):
                M[i, p] = signs[i]
            if round(np.linalg.det(M)) == 1:
                out.append(M)
    return out
