"""protein-like test structures for C14/C15: variants of the seed structures (fragment, noise, unfolding, residue deletion = chain
break, missing backbone atoms, split into several chains, interleaved non-protein residues)"""
import os
import warnings

import numpy as np
from hypothesis import strategies as st

VERIF = os.path.dirname(os.path.dirname(os.path.abspath(__file__)))
SEEDS = {"bpti": 58, "protein8": 28, "mix": 36, "lyso": 158}
_CACHE = {}


def seed(name):
    if name not in _CACHE:
        import mdtraj as md
        with warnings.catch_warnings():
            warnings.simplefilter("ignore")
            _CACHE[name] = md.load(os.path.join(VERIF, "seeds", name + ".h5"))
    return _CACHE[name]


@st.composite
def variant_params(draw, need_h=False, max_res=60):
    names = ["protein8", "mix", "lyso"] if need_h else ["bpti", "bpti", "protein8", "mix", "lyso", "lyso"]
    name = draw(st.sampled_from(names))
    nprot = SEEDS[name]
    nres = draw(st.integers(6, min(max_res, nprot)))
    start = draw(st.integers(0, nprot - nres))
    return {"seed_struct": name, "start": start, "nres": nres, "nf": draw(st.integers(1, 4)),
            "noise": draw(st.sampled_from([0.0, 0.0, 0.01, 0.03, 0.08, 0.2])),
            "unfold": draw(st.sampled_from([0.0, 0.0, 0.0, 0.5, 1.0])),
            "delete_res": sorted(set(draw(st.lists(st.integers(0, nres - 1), max_size=2)))),
            "drop_atoms": draw(st.lists(st.tuples(st.integers(0, nres - 1), st.sampled_from(["N", "CA", "C", "O"])), max_size=2)),
            "split_at": sorted(set(draw(st.lists(st.integers(1, nres - 1), max_size=2)))),
            "insert_water_at": draw(st.one_of(st.none(), st.integers(1, nres - 1))),
            # local kicks of single backbone atoms: break individual hydrogen bonds inside helices / sheets, which splits ladders
            # into pieces separated by gaps of a few residues (bulge candidates) and creates isolated bridges and short helices
            "kicks": draw(st.lists(st.tuples(st.integers(0, nres - 1), st.sampled_from(["O", "N", "O", "C"]),
                                             st.sampled_from([0.15, 0.25, 0.4])), max_size=6)),
            "extras": draw(st.booleans()), "rseed": draw(st.integers(0, 2 ** 31)),
            # order of the atoms inside every residue: as in the seed file (heavy atom before its hydrogens), or not
            # force-field / non-standard residue names on residues with a complete backbone
            "rename": draw(st.lists(st.tuples(st.integers(0, nres - 1), st.sampled_from(["CYX", "HID", "HIE", "ASH", "LYN", "UNK"])), max_size=2)),
            "atom_order": draw(st.sampled_from(["native", "native", "native", "reversed", "hydrogens-first", "shuffled"]))}


def chain_label(mode, k):
    """PDB chain identifier of the k-th chain created by a builder: absent (mdtraj's default), one letter shared by all chains
    (what a PDB file with TER records inside one chain letter gives), distinct letters, or letters that repeat every other chain.
    The identifier is a label only: chains are told apart by being separate Chain objects."""
    if mode in (None, "none"):
        return None
    if mode == "same":
        return "A"
    if mode == "distinct":
        return "ABCDEFGH"[k % 8]
    if mode == "alternating":
        return "AB"[k // 2 % 2]
    if mode == "first-only":
        return "A" if k == 0 else None
    raise ValueError(mode)


CHAIN_LABEL_MODES = ["none", "same", "same", "distinct", "alternating", "first-only"]


def build(p):
    """-> md.Trajectory (no cell)"""
    import mdtraj as md
    from mdtraj.core import element as elem
    base = seed(p["seed_struct"])
    rng = np.random.Generator(np.random.PCG64(p["rseed"]))
    prot = [r for r in base.topology.residues if r.is_protein][p["start"]:p["start"] + p["nres"]]
    top = md.Topology()
    keep = []
    _nch = [0]

    def _add_chain():
        c = top.add_chain(chain_label(p.get("chain_labels"), _nch[0]))
        _nch[0] += 1
        return c
    chain = _add_chain()
    drop = {(i, nm) for i, nm in (tuple(x) for x in p["drop_atoms"])}
    extras_src = [r for r in base.topology.residues if not r.is_protein][:6] if p["extras"] else []
    rng_order = np.random.Generator(np.random.PCG64(p["rseed"] + 99))

    def ordered(r):
        atoms_r = list(r.atoms)
        mode = p.get("atom_order", "native")
        if mode == "reversed":
            atoms_r.reverse()
        elif mode == "hydrogens-first":
            atoms_r.sort(key=lambda a: a.element.symbol != "H")
        elif mode == "shuffled":
            atoms_r = [atoms_r[i] for i in rng_order.permutation(len(atoms_r))]
        return atoms_r
    for k, r in enumerate(prot):
        if k in p["split_at"]:
            chain = _add_chain()
        if p["insert_water_at"] == k:
            w = top.add_residue("HOH", chain, resSeq=900)
            top.add_atom("O", elem.oxygen, w)
            keep.append(("new", r.atom(0).index))
        if k in p["delete_res"] and p["nres"] - len(p["delete_res"]) >= 4:
            continue
        nr = top.add_residue(dict((i_, n_) for i_, n_ in (tuple(x) for x in p.get("rename", []))).get(k, r.name), chain, resSeq=r.resSeq)
        for a in ordered(r):
            if (k, a.name) in drop:
                continue
            top.add_atom(a.name, a.element, nr)
            keep.append(("old", a.index))
    if extras_src:
        ch = _add_chain()
        for r in extras_src:
            nr = top.add_residue(r.name, ch, resSeq=r.resSeq)
            for a in ordered(r):
                top.add_atom(a.name, a.element, nr)
                keep.append(("old", a.index))
    # bonds among kept old atoms
    old_to_new = {}
    for new_i, (kind, old_i) in enumerate(keep):
        if kind == "old":
            old_to_new[old_i] = new_i
    atoms = list(top.atoms)
    for b in base.topology.bonds:
        i, j = b[0].index, b[1].index
        if i in old_to_new and j in old_to_new:
            top.add_bond(atoms[old_to_new[i]], atoms[old_to_new[j]])
    nf = p["nf"]
    frames = []
    for f in range(nf):
        src = base.xyz[f % base.n_frames].astype(np.float64)
        x = np.array([src[old_i] + (np.array([0.25, 0.1, 0.05]) if kind == "new" else 0.0) for kind, old_i in keep])
        if p["unfold"] > 0:
            # pull the structure apart along its principal axis (random-coil / unfolded variants)
            c = x - x.mean(0)
            u = np.linalg.svd(c, full_matrices=False)[2][0]
            x = x + np.outer(c @ u, u) * p["unfold"] * (1 + 0.3 * f)
        x = x + rng.normal(0, p["noise"] * (1 + 0.5 * f) + 1e-5, x.shape)
        frames.append(x)
    xyz = np.array(frames)
    if p.get("kicks"):
        res_new = {}
        kept_prot = [k for k in range(len(prot)) if not (k in p["delete_res"] and p["nres"] - len(p["delete_res"]) >= 4)]
        prot_res_new = [r for r in top.residues if r.is_protein][:len(kept_prot)]
        for k, r in zip(kept_prot, prot_res_new):
            res_new[k] = r
        for k, name, mag in p["kicks"]:
            r = res_new.get(k)
            if r is None:
                continue
            for a in r.atoms:
                if a.name == name:
                    u = rng.normal(size=3)
                    xyz[:, a.index] += mag * u / np.linalg.norm(u)
    xyz = xyz.astype(np.float32)
    return md.Trajectory(xyz, top, time=np.arange(nf) * 1.0)


# ------------------------------------------------------------------------------------------------ designed hydrogen-bond patterns

@st.composite
def designed_pattern(draw):
    """A backbone hydrogen-bond graph (donor -> acceptor, in/out degree <= 1) assembled from secondary-structure motifs:
    helices of stride 3/4/5 (overlapping, for the H > G > I priority), antiparallel and parallel ladders with gaps of 0-6
    residues on either strand (bulge candidates around the 4/1 rule), isolated bridges, random extra bonds; plus chain
    breaks and residues with missing backbone atoms."""
    n = draw(st.integers(12, 60))
    bonds = []

    def add(d, a):
        if 0 <= d < n and 0 <= a < n and d != a and abs(d - a) > 1 and all(b[0] != d for b in bonds) and all(b[1] != a for b in bonds):
            bonds.append([d, a])
    for _ in range(draw(st.integers(1, 5))):
        motif = draw(st.sampled_from(["helix", "helix", "anti", "anti", "para", "random"]))
        if motif == "helix":
            s = draw(st.sampled_from([3, 4, 4, 5]))
            start = draw(st.integers(0, max(0, n - s - 2)))
            for i in range(start, min(n - s, start + draw(st.integers(1, 9)))):
                add(i + s, i)
        elif motif == "anti":
            i = draw(st.integers(1, max(1, n // 2 - 2)))
            j = draw(st.integers(min(n - 2, i + 4), n - 2))
            for _k in range(draw(st.integers(1, 5))):
                if i + 1 >= j - 1:
                    break
                add(i, j)
                add(j, i)
                i += 2 + draw(st.sampled_from([0, 0, 0, 1, 2, 3, 4, 5]))
                j -= 2 + draw(st.sampled_from([0, 0, 0, 1, 2, 3, 4, 5, 6]))
        elif motif == "para":
            i = draw(st.integers(1, max(1, n // 2 - 3)))
            j = draw(st.integers(min(n - 3, i + 4), max(min(n - 3, i + 4), n - 6)))
            for _k in range(draw(st.integers(1, 5))):
                add(j, i - 1)
                add(i + 1, j)
                i += 2 + draw(st.sampled_from([0, 0, 0, 1, 2, 3, 4, 5]))
                j += 2 + draw(st.sampled_from([0, 0, 0, 1, 2, 3, 4, 5, 6]))
        else:
            for _k in range(draw(st.integers(1, 4))):
                add(draw(st.integers(0, n - 1)), draw(st.integers(0, n - 1)))
    return {"n": n, "bonds": bonds, "breaks": sorted(set(draw(st.lists(st.integers(1, n - 1), max_size=2)))),
            "missing": sorted(set(draw(st.lists(st.integers(0, n - 1), max_size=2)))) if draw(st.booleans()) else [],
            "pro": sorted(set(draw(st.lists(st.integers(0, n - 1), max_size=2)))), "nf": draw(st.integers(1, 2)),
            "rseed": draw(st.integers(0, 2 ** 31))}


def build_designed(p):
    """Coordinates that realise the designed bond graph under the Kabsch-Sander criterion.  Only N, H(virtual), C, O enter the
    energy and only CA enters the 0.9 nm prefilter, so: all CA atoms sit in one small ball (every pair passes the prefilter, the
    CA trace makes arbitrary bends), every C=O points along +x (so every virtual hydrogen sits 0.1 nm along +x from its N), each
    designed bond gets its own site 5 nm from any other (N...O = 0.29 nm, linear), unbonded groups get private sites."""
    import mdtraj as md
    from mdtraj.core import element as elem
    n = p["n"]
    rng = np.random.Generator(np.random.PCG64(p["rseed"]))
    top = md.Topology()
    _nch = 0
    ch = top.add_chain(chain_label(p.get("chain_labels"), _nch))
    missing = set(p["missing"])
    names = ["N", "CA", "C", "O"]
    els = {"N": elem.nitrogen, "CA": elem.carbon, "C": elem.carbon, "O": elem.oxygen}
    index = {}
    ai = 0
    for r in range(n):
        if r in p["breaks"]:
            _nch += 1
            ch = top.add_chain(chain_label(p.get("chain_labels"), _nch))
        res = top.add_residue("PRO" if r in p["pro"] else "ALA", ch, resSeq=r + 1)
        for nm in names:
            if r in missing and nm == names[r % 4]:
                continue
            top.add_atom(nm, els[nm], res)
            index[(r, nm)] = ai
            ai += 1
    frames = []
    for f in range(p["nf"]):
        x = np.zeros((ai, 3))
        site = 0

        def new_site():
            nonlocal site
            site += 1
            return np.array([5.0 * (site % 40), 5.0 * (site // 40), 10.0 + 0.01 * f])
        donor_of = {d: a for d, a in p["bonds"]}
        acceptor_of = {a: d for d, a in p["bonds"]}
        pos_N, pos_CO = {}, {}
        for d, a in p["bonds"]:
            s = new_site()
            jit = rng.normal(0, 0.004, 3)
            pos_N[d] = s + jit
            pos_CO[a] = s + np.array([0.29, 0.0, 0.0])        # O position; C = O + 0.123 x
        for r in range(n):
            if r not in pos_N:
                pos_N[r] = new_site()
            if r not in pos_CO:
                pos_CO[r] = new_site()
        ball = rng.normal(0, 0.12, (n, 3))
        for r in range(n):
            for nm, pos in (("N", pos_N[r]), ("CA", ball[r] + np.array([0.0, 0.0, -20.0])), ("O", pos_CO[r]),
                            ("C", pos_CO[r] + np.array([0.123, 0.0, 0.0]))):
                if (r, nm) in index:
                    x[index[(r, nm)]] = pos
        frames.append(x)
    return md.Trajectory(np.array(frames).astype(np.float32), top)
