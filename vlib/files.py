"""helpers for the file-format properties (C01, C02, C18, C19, C20): scratch directories, test trajectories, loaders"""
import contextlib
import hashlib
import math
import os
import shutil
import tempfile
import warnings

import numpy as np

VERIF = os.path.dirname(os.path.dirname(os.path.abspath(__file__)))

# extension -> capabilities (from the format specifications; see DESIGN.md C01 table)
#   top: load() needs a topology argument;  time/cell: stored in the file;  need_cell: writer refuses without a cell
FORMATS = {
    "h5":        dict(top=False, time=True,  cell=True,  tric=True),
    "xtc":       dict(top=True,  time=True,  cell=True,  tric=True),
    "trr":       dict(top=True,  time=True,  cell=True,  tric=True),
    "dcd":       dict(top=True,  time=False, cell=True,  tric=True),
    "nc":        dict(top=True,  time=True,  cell=True,  tric=True),
    "netcdf":    dict(top=True,  time=True,  cell=True,  tric=True),
    "ncdf":      dict(top=True,  time=True,  cell=True,  tric=True),
    "mdcrd":     dict(top=True,  time=False, cell=True,  tric=False),
    "crd":       dict(top=True,  time=False, cell=True,  tric=False),
    "xyz":       dict(top=True,  time=False, cell=False, tric=False),
    "xyz.gz":    dict(top=True,  time=False, cell=False, tric=False),
    "lammpstrj": dict(top=True,  time=False, cell=True,  tric=True, need_cell=True),
    "gro":       dict(top=False, time=True,  cell=True,  tric=True),
    "pdb":       dict(top=False, time=False, cell=True,  tric=True, one_cell=True),
    "pdb.gz":    dict(top=False, time=False, cell=True,  tric=True, one_cell=True),
    "dtr":       dict(top=True,  time=True,  cell=True,  tric=True, need_cell=True),
}


@contextlib.contextmanager
def scratch():
    base = "/dev/shm" if os.path.isdir("/dev/shm") and os.access("/dev/shm", os.W_OK) else os.path.join(VERIF, ".scratch")
    os.makedirs(base, exist_ok=True)
    d = tempfile.mkdtemp(prefix="vf-", dir=base)
    try:
        yield d
    finally:
        shutil.rmtree(d, ignore_errors=True)


def simple_top(n_atoms):
    import mdtraj as md
    from mdtraj.core import element as elem
    top = md.Topology()
    ch = top.add_chain()
    names = ["N", "CA", "C", "O"]
    els = [elem.nitrogen, elem.carbon, elem.carbon, elem.oxygen]
    res = None
    for i in range(n_atoms):
        if i % 4 == 0:
            res = top.add_residue("ALA", ch, resSeq=i // 4 + 1)
        top.add_atom(names[i % 4], els[i % 4], res)
    return top


def file_traj(nf, na, cell, seed, scale=1.0, time="arange"):
    """A trajectory whose values survive every format's precision well: coordinates on a 1e-2 nm grid in +-scale*4 nm.
    cell: None | 'ortho' | 'tric' | 'vary' ; time: 'arange' | 'offset' """
    import mdtraj as md
    rng = np.random.Generator(np.random.PCG64(seed))
    xyz = np.round(rng.uniform(-4, 4, (nf, na, 3)) * scale, 2).astype(np.float32)
    if time == "arange":
        t = np.arange(nf, dtype=np.float32)
    else:
        t = (np.arange(nf) * 2.0 + 5.0).astype(np.float32)
    tr = md.Trajectory(xyz, simple_top(na), time=t)
    if cell is not None:
        L = np.tile([3.0, 4.0, 5.0], (nf, 1))
        A = np.tile([90.0, 90.0, 90.0], (nf, 1))
        if cell in ("tric", "vary"):
            A = np.tile([70.0, 80.0, 100.0], (nf, 1))
        if cell in ("vary", "ortho-vary"):
            L = L + (np.arange(nf) % 16)[:, None] * 0.25
        if cell in ("ortho-then-tric", "tric-then-ortho"):
            # the shape of the cell changes along the trajectory (a box sheared, or relaxed to rectangular, during the run)
            for f in range(nf):
                if (f >= max(1, nf // 2)) == (cell == "ortho-then-tric"):
                    A[f] = [70.0, 80.0, 100.0]
        if cell == "tiny":
            # a cell so small that the file as a whole exceeds 1000 atoms / nm^3 (the documented threshold below which load_pdb
            # believes a CRYST1 record) while a few of its atoms alone do not
            L = np.tile([0.2, 0.2, 0.025 * max(na, 2)], (nf, 1))
        tr.unitcell_lengths = L.astype(np.float32)
        tr.unitcell_angles = A.astype(np.float32)
    return tr


def needs_top(ext):
    return FORMATS[ext]["top"]


def load(fn, ext, top, **kw):
    import mdtraj as md
    with warnings.catch_warnings():
        warnings.simplefilter("ignore")
        if needs_top(ext):
            return md.load(fn, top=top, **kw)
        return md.load(fn, **kw)


def traj_diff(a, b, tol=0.0, what=("xyz", "time", "cell"), meta_rtol=2e-6):
    """None if equal, else a short description; tol=0 => coordinates bit-identical.  Times and cells are compared to
    float32 resolution (meta_rtol): the reference side of a comparison goes through Trajectory slicing, which stores
    them as float32, while some loaders hand back float64 - a representation detail, not a different value."""
    if a.xyz.shape != b.xyz.shape:
        return "shape %s vs %s" % (a.xyz.shape, b.xyz.shape)

    def neq(u, v, t, rt=0.0):
        u, v = np.asarray(u), np.asarray(v)
        if u.shape != v.shape:
            return True
        if t == 0 and rt == 0:
            return not np.array_equal(u, v)
        return not np.allclose(u, v, atol=t, rtol=rt)

    if "xyz" in what and neq(a.xyz, b.xyz, tol):
        return "xyz differs (max %.3g)" % float(np.abs(a.xyz - b.xyz).max())
    if "time" in what and neq(a.time, b.time, tol, meta_rtol):
        return "time %s vs %s" % (np.asarray(a.time)[:6], np.asarray(b.time)[:6])
    if "cell" in what:
        if (a.unitcell_lengths is None) != (b.unitcell_lengths is None):
            return "cell presence %s vs %s" % (a.unitcell_lengths is not None, b.unitcell_lengths is not None)
        if a.unitcell_lengths is not None:
            if neq(a.unitcell_lengths, b.unitcell_lengths, tol, meta_rtol) or neq(a.unitcell_angles, b.unitcell_angles, tol, meta_rtol):
                return "cell differs"
    return None


def sha(path):
    h = hashlib.sha256()
    with open(path, "rb") as fh:
        for blk in iter(lambda: fh.read(1 << 20), b""):
            h.update(blk)
    return h.hexdigest()


def tree_digest(path):
    """digest of a file, or of every file below a directory (names, sizes, bytes); None if absent"""
    if not os.path.lexists(path):
        return None
    if os.path.isfile(path):
        return "F:%d:%s" % (os.path.getsize(path), sha(path))
    out = []
    for d, dn, fn in os.walk(path):
        dn.sort()
        for f in sorted(fn):
            p = os.path.join(d, f)
            out.append("%s:%d:%s" % (os.path.relpath(p, path), os.path.getsize(p), sha(p)))
    return "D:" + hashlib.sha256("\n".join(out).encode()).hexdigest()


def write_dcd_fixed_atoms(path, xyz_nm, free_atoms, cell=None):
    """A CHARMM-flavoured DCD with fixed atoms (header NAMNF > 0), as CHARMM / NAMD write them: the first frame stores every atom,
    later frames only the free ones (the reader fills the fixed ones in from the first frame).  Written from the format description
    (X-PLOR / CHARMM DCD), independent of mdtraj, which never writes such files.  xyz in nm; cell = (lengths nm, angles deg) per frame."""
    import struct
    xyz = np.asarray(xyz_nm, dtype=np.float64) * 10.0
    n_frames, n_atoms, _ = xyz.shape
    free = np.asarray(free_atoms, dtype=np.int64)
    n_fixed = n_atoms - len(free)
    with open(path, "wb") as fh:
        hdr = [0] * 20
        hdr[0], hdr[1], hdr[2], hdr[8], hdr[10], hdr[19] = n_frames, 0, 1, n_fixed, (1 if cell is not None else 0), 24
        block = bytearray(struct.pack("<20i", *hdr))
        block[36:40] = struct.pack("<f", 1.0)
        fh.write(struct.pack("<i", 84) + b"CORD" + bytes(block) + struct.pack("<i", 84))
        fh.write(struct.pack("<ii", 84, 1) + b" " * 80 + struct.pack("<i", 84))
        fh.write(struct.pack("<iii", 4, n_atoms, 4))
        if n_fixed:
            rec = struct.pack("<i", 4 * len(free))
            fh.write(rec + (free + 1).astype("<i4").tobytes() + rec)
        for k in range(n_frames):
            if cell is not None:
                L, A = np.asarray(cell[0][k], dtype=np.float64) * 10.0, np.radians(np.asarray(cell[1][k], dtype=np.float64))
                # CHARMM order: A, cos(gamma), B, cos(beta), cos(alpha), C
                rec6 = struct.pack("<6d", L[0], math.cos(A[2]), L[1], math.cos(A[1]), math.cos(A[0]), L[2])
                fh.write(struct.pack("<i", 48) + rec6 + struct.pack("<i", 48))
            sel = slice(None) if (k == 0 or not n_fixed) else free
            for d in range(3):
                v = xyz[k, sel, d].astype("<f4")
                rec = struct.pack("<i", 4 * len(v))
                fh.write(rec + v.tobytes() + rec)
