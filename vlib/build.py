"""Rebuild mdtraj's compiled extensions from the repository's *current working tree*.

There is no Cython (and no versioneer) in this sandbox, so setup.py cannot be run
as-is.  The Cython-generated .c/.cpp files sit next to each .pyx; we import
setup.py with a stub versioneer, take its Extension definitions and compiler
flags, substitute the generated file for every .pyx and run build_ext --inplace.

ensure_built() is cheap when nothing changed (hash of every C/C++ source, header
and .so under <repo>/mdtraj compared with a stamp).
"""
import fcntl
import hashlib
import json
import os
import subprocess
import sys
import time

VERIF = os.path.dirname(os.path.dirname(os.path.abspath(__file__)))
CACHE = os.path.join(VERIF, ".cache")
SRC_EXT = (".c", ".cpp", ".cxx", ".h", ".hpp")
CY_EXT = (".pyx", ".pxi", ".pxd")

_BUILD_SCRIPT = r'''
import os, sys, types, importlib.util
repo, build_tmp = sys.argv[1], sys.argv[2]
os.chdir(repo); sys.path.insert(0, repo)
sys.argv = ['setup.py']
sys.modules["versioneer"] = types.SimpleNamespace(get_version=lambda: "0+verif", get_cmdclass=lambda: {})
spec = importlib.util.spec_from_file_location('mdtraj_setup', os.path.join(repo, 'setup.py'))
m = importlib.util.module_from_spec(spec); spec.loader.exec_module(m)
import numpy as np
from setuptools import setup
from basesetup import StaticLibrary, build_ext
exts = [e for e in (m.format_extensions() + list(m.rmsd_extensions()) + m.geometry_extensions())
        if not isinstance(e, StaticLibrary)]
for e in exts:
    new = []
    for s in e.sources:
        if s.endswith('.pyx'):
            pick = s[:-4] + ('.cpp' if e.language == 'c++' else '.c')
            if not os.path.exists(pick):
                raise SystemExit('generated source missing: ' + pick)
            new.append(pick)
        else:
            new.append(s)
    e.sources = new
    e.include_dirs.append(np.get_include())
setup(name='mdtraj', ext_modules=exts, cmdclass={'build_ext': build_ext},
      script_args=['-q', 'build_ext', '--inplace', '--build-temp', build_tmp, '-j', '16', '--force'])
'''


def _walk(repo, exts):
    root = os.path.join(repo, "mdtraj")
    out = []
    for d, dn, fn in os.walk(root):
        dn.sort()
        for f in sorted(fn):
            if f.endswith(exts):
                out.append(os.path.join(d, f))
    return out


def tree_hash(repo, exts):
    h = hashlib.sha256()
    for p in _walk(repo, exts):
        h.update(os.path.relpath(p, repo).encode())
        with open(p, "rb") as fh:
            h.update(hashlib.sha256(fh.read()).digest())
    return h.hexdigest()


def _stamp_path(repo):
    tag = hashlib.sha256(os.path.abspath(repo).encode()).hexdigest()[:12]
    return os.path.join(CACHE, "build", "stamp-%s.json" % tag)


def ensure_built(repo="/repo", force=False, quiet=True):
    """Returns a dict describing what was done; raises RuntimeError if the build fails."""
    repo = os.path.abspath(repo)
    os.makedirs(os.path.join(CACHE, "build"), exist_ok=True)
    stamp_file = _stamp_path(repo)
    info = {"rebuilt": False, "pyx_changed": False}
    with open(stamp_file + ".lock", "w") as lock:
        fcntl.flock(lock, fcntl.LOCK_EX)
        src = tree_hash(repo, SRC_EXT)
        so = tree_hash(repo, (".so",))
        cy = tree_hash(repo, CY_EXT)
        stamp = {}
        if os.path.exists(stamp_file):
            try:
                stamp = json.load(open(stamp_file))
            except Exception:
                stamp = {}
        if stamp.get("cy") not in (None, cy):
            info["pyx_changed"] = True
            sys.stderr.write("WARNING: .pyx/.pxi/.pxd sources changed since the last build; "
                             "Cython is not available in this sandbox so they cannot be recompiled\n")
        if not force and stamp.get("src") == src and stamp.get("so") == so:
            return info
        t0 = time.time()
        tmp = os.path.join(CACHE, "build", "tmp-" + os.path.basename(stamp_file)[6:-5])
        env = dict(os.environ)
        env.pop("PYTHONPATH", None)
        p = subprocess.run([sys.executable, "-c", _BUILD_SCRIPT, repo, tmp], env=env,
                           stdout=subprocess.PIPE, stderr=subprocess.STDOUT, text=True)
        if p.returncode != 0:
            raise RuntimeError("build of %s failed:\n%s" % (repo, p.stdout[-4000:]))
        info["rebuilt"] = True
        info["build_s"] = round(time.time() - t0, 1)
        json.dump({"src": src, "so": tree_hash(repo, (".so",)), "cy": stamp.get("cy", cy) if info["pyx_changed"] else cy,
                   "t": time.time()}, open(stamp_file, "w"))
        if not quiet:
            sys.stderr.write("rebuilt extensions of %s in %.1fs\n" % (repo, info["build_s"]))
    return info


if __name__ == "__main__":
    r = ensure_built(sys.argv[1] if len(sys.argv) > 1 else "/repo", force="--force" in sys.argv, quiet=False)
    print(json.dumps(r))
