"""Shared Hypothesis strategies.  Every strategy yields plain JSON data (dicts / lists / numbers); bulk numeric data
is described by parameters plus a 32-bit seed and expanded deterministically by expand_* below."""
import math

import numpy as np
from hypothesis import strategies as st

TO = 109.4712206  # truncated-octahedron angle


# --------------------------------------------------------------------------------------------- cells

def _fix_angles(al, be, ga, margin=0.05):
    """pull the angles towards 90 until the cell has positive volume with a margin (constructive, no rejection)"""
    for _ in range(40):
        ca, cb, cg = (math.cos(math.radians(x)) for x in (al, be, ga))
        if 1 - ca * ca - cb * cb - cg * cg + 2 * ca * cb * cg > margin:
            break
        al, be, ga = (90 + (x - 90) * 0.8 for x in (al, be, ga))
    return [al, be, ga]


def _fix_lengths(L, ratio=6.0):
    m = max(L)
    return [max(x, m / ratio) for x in L]


def _q(x, exact):
    return round(x * 256) / 256 if exact else x


@st.composite
def cell(draw, kinds=None, exact=False, lmin=0.8, lmax=20.0):
    """one cell: {'kind', 'L': [a,b,c] nm, 'A': [alpha,beta,gamma] deg}"""
    kinds = kinds or ["cubic", "ortho", "mono", "hex", "troct", "rhdo", "tric", "tric"]
    kind = draw(st.sampled_from(kinds))
    flt = lambda lo, hi: draw(st.floats(lo, hi, allow_nan=False))
    logl = lambda: math.exp(flt(math.log(lmin), math.log(lmax)))
    if kind == "cubic":
        a = logl()
        L, A = [a, a, a], [90.0, 90.0, 90.0]
    elif kind == "ortho":
        L, A = _fix_lengths([logl(), logl(), logl()]), [90.0, 90.0, 90.0]
    elif kind == "near-ortho":
        # almost rectangular: every angle 0.002 - 0.01 degrees off 90 (above the 9e-4 degrees within which mdtraj itself
        # documents / implements "orthorhombic"), i.e. off-diagonal vector components of 1e-4 ... 3e-3 nm
        dev = [draw(st.sampled_from([-1, 1])) * flt(0.002, 0.01) for _ in range(3)]
        L, A = _fix_lengths([logl(), logl(), logl()]), [90.0 + d for d in dev]
    elif kind == "mono":
        L, A = _fix_lengths([logl(), logl(), logl()]), [90.0, flt(50, 130), 90.0]
    elif kind == "hex":
        a = logl()
        L, A = _fix_lengths([a, a, logl()]), [90.0, 90.0, draw(st.sampled_from([60.0, 120.0]))]
    elif kind == "troct":
        a = logl()
        L, A = [a, a, a], [TO, TO, TO]
    elif kind == "rhdo":
        a = logl()
        L, A = [a, a, a], draw(st.sampled_from([[60.0, 60.0, 90.0], [60.0, 90.0, 60.0], [90.0, 60.0, 60.0],
                                               [120.0, 60.0, 90.0], [60.0, 90.0, 90.0]]))
        A = _fix_angles(*A)
    else:
        L = _fix_lengths([logl(), logl(), logl()])
        A = _fix_angles(flt(45, 135), flt(45, 135), flt(45, 135))
    L = [max(_q(x, exact), lmin if not exact else 1.0) for x in L]
    return {"kind": kind, "L": [float(np.float32(x)) for x in L], "A": [float(np.float32(x)) for x in A]}


@st.composite
def cells(draw, n_frames, kinds=None, exact=False, allow_none=True, vary_p=0.3, lmin=0.8, lmax=20.0):
    """per-frame cells: None or a list of n_frames cells (constant, drifting or independently redrawn)"""
    if allow_none and draw(st.integers(0, 5)) == 0:
        return None
    base = draw(cell(kinds, exact, lmin, lmax))
    mode = "const"
    if n_frames > 1:
        mode = draw(st.sampled_from(["const", "const", "drift", "redraw"]))
    if mode == "const":
        return [base] * n_frames
    if mode == "redraw":
        return [base] + [draw(cell(kinds, exact, lmin, lmax)) for _ in range(n_frames - 1)]
    out = [base]
    for i in range(1, n_frames):
        f = 1.0 + 0.03 * i * draw(st.sampled_from([-1, 1]))
        L = [float(np.float32(max(_q(x * f, exact), lmin))) for x in base["L"]]
        A = base["A"]
        if base["kind"] in ("tric", "mono"):
            A = _fix_angles(*[a + (0.5 * i if abs(a - 90) > 1e-3 else 0.0) for a in base["A"]])
            A = [float(np.float32(a)) for a in A]
        out.append({"kind": base["kind"], "L": L, "A": A})
    return out


def box_vectors(L, A):
    """float64 box vectors (rows a, b, c) in the standard orientation, from lengths (nm) and angles (deg);
    independent of mdtraj's own conversion (textbook formula)."""
    a, b, c = (float(x) for x in L)
    al, be, ga = (math.radians(float(x)) for x in A)
    ca, cb, cg, sg = math.cos(al), math.cos(be), math.cos(ga), math.sin(ga)
    cx = c * cb
    cy = c * (ca - cb * cg) / sg
    cz2 = c * c - cx * cx - cy * cy
    cz = math.sqrt(max(cz2, 0.0))
    return np.array([[a, 0.0, 0.0], [b * cg, b * sg, 0.0], [cx, cy, cz]], dtype=np.float64)


def widths(H):
    a, b, c = H
    V = abs(np.linalg.det(H))
    return np.array([V / np.linalg.norm(np.cross(b, c)), V / np.linalg.norm(np.cross(c, a)),
                     V / np.linalg.norm(np.cross(a, b))])


KINDS_GEOMETRY = ["cubic", "ortho", "mono", "hex", "troct", "rhdo", "tric", "tric", "near-ortho"]


def is_ortho(c):
    return all(abs(a - 90.0) < 1e-6 for a in c["A"])


# --------------------------------------------------------------------------------------------- coordinates

@st.composite
def coord_params(draw, n_atoms=None, classes=None, max_atoms=16, min_atoms=2):
    n = n_atoms if n_atoms is not None else draw(st.integers(min_atoms, max_atoms))
    cls = draw(st.sampled_from(classes or ["inside", "spread", "spread", "faces", "clustered", "paired", "paired", "halfbox"]))
    return {"n": n, "cls": cls, "spread": draw(st.sampled_from([1, 3, 8])),
            "sigma": draw(st.sampled_from([0.05, 0.15, 0.5])),
            "offset": draw(st.sampled_from([0.0, 0.0, 0.0, 30.0, 500.0])),
            "seed": draw(st.integers(0, 2 ** 32 - 1))}


def expand_coords(p, n_frames, Hs, exact=False):
    """-> float32 array (n_frames, n, 3).  Hs: list of 3x3 float64 box-vector matrices per frame, or None."""
    rng = np.random.Generator(np.random.PCG64(p["seed"]))
    n = p["n"]
    out = np.zeros((n_frames, n, 3), dtype=np.float64)
    for f in range(n_frames):
        H = Hs[f] if Hs is not None else np.eye(3) * 3.0
        cls = p["cls"]
        if cls == "inside":
            frac = rng.uniform(0, 1, (n, 3))
        elif cls == "spread":
            frac = rng.uniform(-p["spread"], p["spread"], (n, 3))
        elif cls == "halfbox":
            # a compact system in a large cell (solvent stripped, cell kept): all atoms inside an axis-aligned box whose edges
            # are 0.3 / 0.49 / 0.6 of the cell edge lengths; in skewed cells opposite corners can be closer through an image
            fr = [0.3, 0.49, 0.6][int(rng.integers(0, 3))]
            edge = np.linalg.norm(H, axis=1) * fr
            out[f] = rng.uniform(0, 1, (n, 3)) * edge + rng.uniform(-1, 1, 3) @ H * int(rng.integers(0, 2))
            continue
        elif cls == "flat":
            # a sheet or a line: all atoms share exactly the same coordinate along one or two axes (zero extent)
            xyz = rng.uniform(0, 1, (n, 3)) @ H
            axes = [[2], [1], [1, 2], [0], [0, 1]][int(rng.integers(0, 5))]
            for ax in axes:
                xyz[:, ax] = float(np.float32(xyz[0, ax]))
            out[f] = xyz
            continue
        elif cls == "mixed":
            # most atoms inside the primary cell, the others moved out of it by lattice vectors (unwrapped molecules)
            frac = rng.uniform(0, 1, (n, 3)) + rng.integers(-p["spread"], p["spread"] + 1, (n, 3)) * (rng.random((n, 1)) < 0.4)
        elif cls == "faces":
            frac = rng.integers(-2, 3, (n, 3)) * 0.5 + rng.uniform(-1e-4, 1e-4, (n, 3)) * rng.integers(0, 2, (n, 3))
        elif cls == "paired":
            # atom 2k+1 = atom 2k + (vector of length u * half the smallest cell width) + a lattice vector: every such
            # pair lies inside the range where the minimum-image convention is defined, close to its edge
            frac = rng.uniform(-p["spread"], p["spread"], (n, 3))
            xyz = frac @ H
            wmin = widths(H).min()
            for k in range(1, n, 2):
                v = rng.normal(size=3)
                v *= rng.choice([0.3, 0.8, 0.95, 0.995]) * 0.5 * wmin / np.linalg.norm(v)
                xyz[k] = xyz[k - 1] + v + rng.integers(-p["spread"], p["spread"] + 1, 3) @ H
            out[f] = xyz
            continue
        elif cls == "paired-inside":
            # atom 2k uniformly inside the primary cell, atom 2k+1 = atom 2k + a vector whose length straddles
            # pair_scale * half the smallest width (the caller's cutoff) + (often) a lattice vector: true neighbours of
            # atoms sitting anywhere in the cell, reachable only through the periodic boundary
            xyz = rng.uniform(0, 1, (n, 3)) @ H
            wmin = widths(H).min()
            for k in range(1, n, 2):
                v = rng.normal(size=3)
                v *= rng.choice([0.3, 0.9, 0.999, 1.001, 1.2]) * p.get("pair_scale", 1.0) * 0.5 * wmin / np.linalg.norm(v)
                sh = rng.integers(-p["spread"], p["spread"] + 1, 3) * (rng.random() < 0.6)
                xyz[k] = xyz[k - 1] + v + sh @ H
            out[f] = xyz
            continue
        elif cls == "clustered":
            k = max(1, n // 5)
            cent = rng.uniform(-1, 2, (k, 3))
            frac = cent[rng.integers(0, k, n)] + 0
            xyz = frac @ H + rng.normal(0, p["sigma"], (n, 3))
            out[f] = xyz
            continue
        else:
            raise ValueError(cls)
        out[f] = frac @ H
    out += p.get("offset", 0.0)
    if exact:
        out = np.round(out * 1024) / 1024
    return out.astype(np.float32)


# --------------------------------------------------------------------------------------------- simple topologies

def plain_topology(n_atoms, per_res=1, element="O", resname="HOH", bonds=()):
    import mdtraj as md
    from mdtraj.core import element as elem
    top = md.Topology()
    ch = top.add_chain()
    el = elem.get_by_symbol(element)
    res = None
    for i in range(n_atoms):
        if i % per_res == 0:
            res = top.add_residue(resname, ch)
        top.add_atom("%s%d" % (element, i % per_res), el, res)
    atoms = list(top.atoms)
    for i, j in bonds:
        top.add_bond(atoms[i], atoms[j])
    return top


def make_traj(xyz, cell_list, top=None, time=None):
    import mdtraj as md
    n_frames, n = xyz.shape[:2]
    top = top if top is not None else plain_topology(n)
    kw = {}
    if cell_list is not None:
        kw["unitcell_lengths"] = np.array([c["L"] for c in cell_list], dtype=np.float32)
        kw["unitcell_angles"] = np.array([c["A"] for c in cell_list], dtype=np.float32)
    t = md.Trajectory(np.array(xyz, dtype=np.float32), top, time=time, **kw)
    return t


def cell_matrices(cell_list):
    return None if cell_list is None else [box_vectors(c["L"], c["A"]) for c in cell_list]


# --------------------------------------------------------------------------------------------- how an index array is handed over

def index_variant(arr, k):
    """the same indices in another container: 0 int64 C array, 1 int32, 2 nested Python lists, 3 a non-contiguous view (every
    second row of a padded array), 4 Fortran order, 5 uint16 (when they fit)"""
    a = np.asarray(arr, dtype=np.int64)
    k = k % 6
    if k == 1:
        return a.astype(np.int32)
    if k == 2 and a.size:            # (an empty Python list has no second dimension: not a pair list)
        return a.tolist()
    if k == 3 and a.ndim == 2 and len(a):
        big = np.zeros((2 * len(a), a.shape[1]), dtype=np.int64)
        big[::2] = a
        return big[::2]
    if k == 4 and a.ndim == 2:
        return np.asfortranarray(a)
    if k == 5 and a.size and a.max() < 60000 and a.min() >= 0:
        return a.astype(np.uint16)
    return a
