"""Independent readers of the on-disk formats (C01): nothing here imports mdtraj.  Each returns native-unit numbers
as the format specification lays them out: dict(xyz=(F,N,3) float64, time=(F,) or None, cell=(F,6) lengths+angles in the
format's units or None, units=...)."""
import gzip
import io
import math
import os
import struct

import numpy as np


def _open_text(path):
    if path.endswith(".gz"):
        return io.TextIOWrapper(gzip.open(path, "rb"), encoding="utf-8")
    return open(path)


def vectors_to_la(v):
    """3x3 box vectors (rows) -> lengths + angles (deg); zeros -> None"""
    v = np.asarray(v, dtype=np.float64)
    if not np.any(v):
        return None
    a, b, c = v
    la = [np.linalg.norm(a), np.linalg.norm(b), np.linalg.norm(c)]

    def ang(p, q):
        return math.degrees(math.acos(max(-1.0, min(1.0, float(np.dot(p, q) / (np.linalg.norm(p) * np.linalg.norm(q)))))))
    return la + [ang(b, c), ang(c, a), ang(a, b)]


# --------------------------------------------------------------------------------------------------------- XDR (trr, xtc)

def read_trr(path):
    """GROMACS .trr (XDR, big-endian); nm, ps"""
    data = open(path, "rb").read()
    off = 0
    xyz, times, cells, steps = [], [], [], []
    while off < len(data):
        magic, slen = struct.unpack_from(">ii", data, off)
        if magic != 1993:
            raise ValueError("bad TRR magic %r at %d" % (magic, off))
        off += 8
        (n,) = struct.unpack_from(">i", data, off)
        off += 4 + ((n + 3) // 4) * 4
        ir, e, box, vir, pres, top, sym, x, v, f, natoms, step, nre = struct.unpack_from(">13i", data, off)
        off += 52
        real = 8 if (box and box // 9 == 8) or (x and x // (3 * natoms) == 8) else 4
        fmt = ">d" if real == 8 else ">f"
        t, lam = struct.unpack_from(fmt[0] + fmt[1] * 2, data, off)
        off += 2 * real
        bx = None
        if box:
            bx = np.array(struct.unpack_from(">%d%s" % (9, fmt[1]), data, off)).reshape(3, 3)
            off += box
        off += vir + pres
        if x:
            xyz.append(np.array(struct.unpack_from(">%d%s" % (3 * natoms, fmt[1]), data, off)).reshape(natoms, 3))
            off += x
        off += v + f
        times.append(t)
        steps.append(step)
        cells.append(None if bx is None else vectors_to_la(bx))
    return {"xyz": np.array(xyz), "time": np.array(times), "cell": cells, "step": steps, "length_unit": "nm"}


def read_xtc_headers(path):
    """GROMACS .xtc frame headers (magic 1995, natoms, step, time, box) and, for <= 9 atoms, the raw float coordinates.
    Compressed coordinate blocks are skipped using their byte count (decoding them needs xdr3dfcoord: out of scope)."""
    data = open(path, "rb").read()
    off = 0
    frames = []
    while off < len(data):
        magic, natoms, step = struct.unpack_from(">iii", data, off)
        if magic != 1995:
            raise ValueError("bad XTC magic %r at %d" % (magic, off))
        (t,) = struct.unpack_from(">f", data, off + 12)
        box = np.array(struct.unpack_from(">9f", data, off + 16)).reshape(3, 3)
        (n2,) = struct.unpack_from(">i", data, off + 52)
        off += 56
        fr = {"natoms": natoms, "step": step, "time": t, "cell": vectors_to_la(box), "natoms2": n2}
        if natoms <= 9:
            fr["xyz"] = np.array(struct.unpack_from(">%df" % (3 * natoms), data, off)).reshape(natoms, 3)
            off += 12 * natoms
        else:
            (prec,) = struct.unpack_from(">f", data, off)
            fr["precision"] = prec
            off += 4 + 24 + 4     # precision, minint[3], maxint[3], smallidx
            (nbytes,) = struct.unpack_from(">i", data, off)
            off += 4 + ((nbytes + 3) // 4) * 4
        frames.append(fr)
    return frames


# --------------------------------------------------------------------------------------------------------- DCD

def read_dcd(path):
    """CHARMM/NAMD .dcd (little-endian Fortran records); Angstrom; cell record = A, cos(gamma)|gamma, B, cos(beta), cos(alpha), C"""
    data = open(path, "rb").read()
    off = 0

    def rec():
        nonlocal off
        (n,) = struct.unpack_from("<i", data, off)
        body = data[off + 4:off + 4 + n]
        (n2,) = struct.unpack_from("<i", data, off + 4 + n)
        if n != n2:
            raise ValueError("corrupt Fortran record at %d" % off)
        off += 8 + n
        return body
    hdr = rec()
    if hdr[:4] != b"CORD":
        raise ValueError("not a DCD file")
    icntrl = struct.unpack_from("<20i", hdr, 4)
    nset, has_cell = icntrl[0], icntrl[10]
    (delta,) = struct.unpack_from("<f", hdr, 4 + 9 * 4)
    rec()   # title
    (natoms,) = struct.unpack("<i", rec())
    xyz, cells = [], []
    while off < len(data):
        if has_cell:
            c = struct.unpack("<6d", rec())
            A, g, B, b, a, C = c

            def deg(v):
                # the X-PLOR / NAMD / VMD layout that the header written by mdtraj announces stores the cosines of the cell
                # angles; mdtraj's own reader also tolerates degrees there, an independent reader of the layout need not
                if not -1.0 <= v <= 1.0:
                    raise ValueError("DCD cell record holds %r where the cosine of a cell angle belongs" % v)
                return math.degrees(math.acos(v))
            cells.append([A, B, C, deg(a), deg(b), deg(g)])
        X = np.frombuffer(rec(), dtype="<f4")
        Y = np.frombuffer(rec(), dtype="<f4")
        Z = np.frombuffer(rec(), dtype="<f4")
        xyz.append(np.stack([X, Y, Z], 1).astype(np.float64))
    return {"xyz": np.array(xyz), "time": None, "cell": cells if has_cell else None, "nset": nset, "natoms": natoms,
            "delta": delta, "length_unit": "A"}


# --------------------------------------------------------------------------------------------------------- text formats

def read_mdcrd(path, natoms, has_box):
    lines = open(path).read().split("\n")
    vals = []
    for ln in lines[1:]:
        vals += [float(ln[i:i + 8]) for i in range(0, len(ln.rstrip("\n")), 8) if ln[i:i + 8].strip()]
    per = 3 * natoms + (3 if has_box else 0)
    if len(vals) % per:
        raise ValueError("mdcrd: %d numbers is not a multiple of %d" % (len(vals), per))
    arr = np.array(vals).reshape(-1, per)
    return {"xyz": arr[:, :3 * natoms].reshape(-1, natoms, 3), "time": None,
            "cell": [list(r) + [90.0, 90.0, 90.0] for r in arr[:, 3 * natoms:]] if has_box else None, "length_unit": "A"}


def read_xyz(path):
    lines = _open_text(path).read().split("\n")
    i = 0
    frames = []
    while i < len(lines) and lines[i].strip():
        n = int(lines[i])
        frames.append([[float(v) for v in lines[i + 2 + k].split()[1:4]] for k in range(n)])
        i += n + 2
    return {"xyz": np.array(frames), "time": None, "cell": None, "length_unit": "A"}


def read_lammpstrj(path):
    lines = open(path).read().split("\n")
    i = 0
    xyz, cells = [], []
    while i < len(lines):
        if not lines[i].startswith("ITEM: TIMESTEP"):
            i += 1
            continue
        n = int(lines[i + 3])
        hdr = lines[i + 4].split()
        b = [[float(v) for v in lines[i + 5 + k].split()] for k in range(3)]
        if "xy" in hdr:
            xy, xz, yz = b[0][2], b[1][2], b[2][2]
            xlo = b[0][0] - min(0.0, xy, xz, xy + xz)
            xhi = b[0][1] - max(0.0, xy, xz, xy + xz)
            ylo = b[1][0] - min(0.0, yz)
            yhi = b[1][1] - max(0.0, yz)
        else:
            xy = xz = yz = 0.0
            xlo, xhi, ylo, yhi = b[0][0], b[0][1], b[1][0], b[1][1]
        zlo, zhi = b[2][0], b[2][1]
        lx, ly, lz = xhi - xlo, yhi - ylo, zhi - zlo
        cells.append(vectors_to_la([[lx, 0, 0], [xy, ly, 0], [xz, yz, lz]]))
        cols = lines[i + 8].split()[2:]
        def col(*names):
            for nm in names:
                if nm in cols:
                    return cols.index(nm)
            raise ValueError("no coordinate column among %s in %s" % (names, cols))
        ix, iy, iz, iid = col("x", "xu"), col("y", "yu"), col("z", "zu"), cols.index("id")
        rows = [lines[i + 9 + k].split() for k in range(n)]
        rows.sort(key=lambda r: int(r[iid]))
        xyz.append([[float(r[ix]), float(r[iy]), float(r[iz])] for r in rows])
        i += 9 + n
    return {"xyz": np.array(xyz), "time": None, "cell": cells, "length_unit": "A"}


def read_gro(path):
    lines = open(path).read().split("\n")
    i = 0
    xyz, times, cells = [], [], []
    while i < len(lines) and lines[i].strip() != "" or (i + 1 < len(lines) and lines[i + 1].strip().isdigit()):
        title = lines[i]
        if i + 1 >= len(lines) or not lines[i + 1].strip().isdigit():
            break
        n = int(lines[i + 1])
        t = None
        if "t=" in title:
            t = float(title.split("t=")[1].split()[0])
        fr = []
        for k in range(n):
            ln = lines[i + 2 + k]
            rest = ln[20:]
            w = len(rest) // 3 if len(rest.rstrip()) % 3 == 0 and False else None
            # columns after the first 20 characters are 3 (or 6) equally wide fields: the distance between decimal points gives the width
            dots = [p for p, ch in enumerate(rest) if ch == "."]
            w = dots[1] - dots[0]
            fr.append([float(rest[j * w:(j + 1) * w]) for j in range(3)])
        bx = [float(v) for v in lines[i + 2 + n].split()]
        if len(bx) == 3:
            bx += [0.0] * 6
        v = [[bx[0], bx[3], bx[4]], [bx[5], bx[1], bx[6]], [bx[7], bx[8], bx[2]]]
        xyz.append(fr)
        times.append(t)
        cells.append(vectors_to_la(v))
        i += n + 3
    return {"xyz": np.array(xyz), "time": times, "cell": cells, "length_unit": "nm"}


def read_pdb(path):
    xyz, cur = [], []
    cell = None
    serials, chains = [], []
    for ln in _open_text(path):
        rec = ln[:6]
        if rec == "CRYST1":
            cell = [float(ln[6:15]), float(ln[15:24]), float(ln[24:33]), float(ln[33:40]), float(ln[40:47]), float(ln[47:54])]
        elif rec in ("ATOM  ", "HETATM"):
            cur.append([float(ln[30:38]), float(ln[38:46]), float(ln[46:54])])
        elif rec == "ENDMDL":
            xyz.append(cur)
            cur = []
    if cur:
        xyz.append(cur)
    return {"xyz": np.array(xyz), "time": None, "cell": cell, "length_unit": "A"}


def read_rst7(path):
    lines = open(path).read().split("\n")
    hdr = lines[1].split()
    n = int(hdr[0])
    t = float(hdr[1]) if len(hdr) > 1 else None
    vals = []
    for ln in lines[2:]:
        vals += [float(ln[i:i + 12]) for i in range(0, len(ln), 12) if ln[i:i + 12].strip()]
    xyz = np.array(vals[:3 * n]).reshape(n, 3)
    rest = vals[3 * n:]
    cell = rest[-6:] if len(rest) in (6, 3 * n + 6) else None
    return {"xyz": xyz[None], "time": [t], "cell": [cell] if cell else None, "length_unit": "A"}


# --------------------------------------------------------------------------------------------------------- container formats

def read_netcdf(path):
    import netCDF4
    with netCDF4.Dataset(path) as ds:
        ds.set_auto_mask(False)
        v = ds.variables
        c = np.array(v["coordinates"][:], dtype=np.float64)
        out = {"xyz": c if c.ndim == 3 else c[None], "length_unit": "A",
               "time": None if "time" not in v else np.atleast_1d(np.array(v["time"][:], dtype=np.float64)),
               "conventions": getattr(ds, "Conventions", None),
               "coord_units": getattr(v["coordinates"], "units", None)}
        if "cell_lengths" in v:
            L = np.array(v["cell_lengths"][:], dtype=np.float64).reshape(-1, 3)
            A = np.array(v["cell_angles"][:], dtype=np.float64).reshape(-1, 3)
            out["cell"] = np.concatenate([L, A], 1).tolist()
        else:
            out["cell"] = None
    return out


def read_h5(path):
    import tables
    with tables.open_file(path) as fh:
        r = fh.root
        out = {"xyz": np.array(r.coordinates[:], dtype=np.float64), "length_unit": r.coordinates.attrs.units,
               "time": np.array(r.time[:], dtype=np.float64) if "time" in r else None,
               "time_unit": r.time.attrs.units if "time" in r else None}
        if "cell_lengths" in r:
            out["cell"] = np.concatenate([np.array(r.cell_lengths[:], dtype=np.float64), np.array(r.cell_angles[:], dtype=np.float64)], 1).tolist()
            out["cell_units"] = (r.cell_lengths.attrs.units, r.cell_angles.attrs.units)
        else:
            out["cell"] = None
        for k in ("length_unit", "time_unit"):
            if isinstance(out[k], bytes):
                out[k] = out[k].decode()
    return out
