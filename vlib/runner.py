"""Shared driver: tiers, seeding, sharding, shrinking cap, replay, evidence, known findings.

A property module (props/cNN.py) provides:
    ID, RULE (text of the non-triviality rule), QUICK / THOROUGH (dicts: examples per shard, shards, budget_s)
    strategy(tier)          -> Hypothesis strategy yielding a JSON-serialisable case (dict)
    run_case(case)          -> dict(viol=[(kind, detail)], labels=[...], nontrivial=bool)
    enumerate_cases(tier)   -> optional: finite iterable of cases that is swept completely (sharded)
    WHERE = {finding_key: predicate(case, kind) -> bool}   optional, for open known findings
    OMP = "2"               optional: OMP_NUM_THREADS for the worker processes
Exit codes: 0 held, 1 violation, 2 harness error / inconclusive.
"""
import argparse
import collections
import hashlib
import importlib
import json
import os
import subprocess
import sys
import tempfile
import time
import traceback

VERIF = os.path.dirname(os.path.dirname(os.path.abspath(__file__)))
REPO = os.environ.get("VERIF_REPO", "/repo")


class HarnessError(Exception):
    pass


class _Found(Exception):
    pass


def canon(case):
    return json.dumps(case, sort_keys=True, separators=(",", ":"), default=_json_default)


def _json_default(o):
    import numpy as np
    if isinstance(o, np.ndarray):
        return o.tolist()
    if isinstance(o, (np.integer,)):
        return int(o)
    if isinstance(o, (np.floating,)):
        return float(o)
    if isinstance(o, (np.bool_,)):
        return bool(o)
    if isinstance(o, (set, frozenset, tuple)):
        return list(o)
    raise TypeError(repr(o))


def case_hash(case):
    return hashlib.sha256(canon(case).encode()).hexdigest()[:16]


def shard_seed(seed, pid, shard):
    return int.from_bytes(hashlib.sha256(("%d/%s/%d" % (seed, pid, shard)).encode()).digest()[:4], "big")


def load_module(pid):
    sys.path.insert(0, VERIF)
    return importlib.import_module("props." + pid.lower())


# ----------------------------------------------------------------------------------------------
# executing one case, classifying exceptions

def _mdtraj_frame(tb):
    """innermost traceback frame that lies inside the repository under test, or None"""
    hit = None
    for fs in traceback.extract_tb(tb):
        fn = os.path.abspath(fs.filename)
        if fn.startswith(os.path.abspath(REPO) + os.sep) or "/mdtraj/" in fn:
            hit = "%s:%s" % (os.path.relpath(fn, REPO) if fn.startswith(REPO) else os.path.basename(fn), fs.name)
    return hit


def exec_case(mod, case):
    """run_case with exception classification.  An exception that escapes run_case and passed through mdtraj
    code is a violation ('a sound input must give a result'); anything else is a harness error."""
    try:
        res = mod.run_case(case)
    except HarnessError:
        raise
    except (KeyboardInterrupt, SystemExit):
        raise
    except BaseException as e:  # noqa
        where = _mdtraj_frame(e.__traceback__)
        if where is None:
            raise HarnessError("harness exception in %s: %s\n%s" % (mod.ID, e, traceback.format_exc()))
        res = {"viol": [("exception/%s@%s" % (type(e).__name__, where), repr(e)[:300])], "labels": ["raised"],
               "nontrivial": False}
    res.setdefault("labels", [])
    res.setdefault("nontrivial", False)
    res["viol"] = [(str(k), str(d)[:2000]) for k, d in res.get("viol", [])]
    return res


def split_known(mod, case, viol, findings):
    """-> (unknown violations, keys of open findings matched).  A violation is attributed to an open finding only
    if its kind is listed by the finding AND the finding's where-predicate accepts the case."""
    unknown, matched = [], []
    where = getattr(mod, "WHERE", {})
    for kind, detail in viol:
        hit = None
        for f in findings:
            if f.get("status") != "open":
                continue
            if not any(kind == k or (k.endswith("*") and kind.startswith(k[:-1])) for k in f.get("kinds", [])):
                continue
            pred = where.get(f["key"])
            if pred is None:
                continue
            try:
                ok = bool(pred(case, kind))
            except Exception:
                ok = False
            if ok:
                hit = f["key"]
                break
        if hit:
            matched.append(hit)
        else:
            unknown.append((kind, detail))
    return unknown, matched


def load_findings(pid):
    p = os.path.join(VERIF, "known_findings.jsonl")
    out = []
    if os.path.exists(p):
        for line in open(p):
            line = line.strip()
            if line and not line.startswith("#"):
                r = json.loads(line)
                if r.get("property") == pid:
                    out.append(r)
    return out


# ----------------------------------------------------------------------------------------------
# one shard (runs in its own process)

class Stats:
    def __init__(self):
        self.evals = 0
        self.labels = {}
        self.nontrivial = set()
        self.samples = []
        self.known = {}
        self.best_fail = None
        self.first_fail_t = None
        self.budget_hit = False
        self.exhaustive_done = None
        self.recent = collections.deque(maxlen=60)   # cases executed in this process, oldest first (for history-dependent failures)
        self.first_fail_hist = None

    def note(self, case, res, want_samples=3):
        self.evals += 1
        for lab in res["labels"]:
            self.labels[lab] = self.labels.get(lab, 0) + 1
        if res["nontrivial"]:
            h = case_hash(case)
            if h not in self.nontrivial:
                self.nontrivial.add(h)
                if len(self.samples) < want_samples:
                    s = canon(case)
                    if len(s) < 6000:
                        self.samples.append(json.loads(s))

    def fail(self, case, viol):
        if self.first_fail_hist is None:
            before = list(self.recent)
            if before and before[-1] == canon(case):
                before = before[:-1]
            self.first_fail_hist = {"before": [json.loads(c) for c in before], "case": json.loads(canon(case))}
        size = len(canon(case))
        if self.best_fail is None or size <= self.best_fail[0]:
            self.best_fail = (size, json.loads(canon(case)), viol)
        if self.first_fail_t is None:
            self.first_fail_t = time.time()


def run_shard(pid, tier, seed, shard, nshards, out_path, examples=None):
    import hypothesis
    from hypothesis import HealthCheck, Phase, given, settings
    mod = load_module(pid)
    conf = dict(getattr(mod, "QUICK" if tier == "quick" else "THOROUGH"))
    if examples is not None:
        conf["examples"] = examples
    findings = load_findings(pid)
    st = Stats()
    t_start = time.time()
    budget = conf.get("budget_s", 120 if tier == "quick" else 1500)
    shrink_cap = 45 if tier == "quick" else 240
    err = None

    survey = os.environ.get("VERIF_SURVEY") == "1"
    buckets = {}

    cur_path = out_path + ".cur"

    def one(case):
        with open(cur_path, "w") as fh:  # so that the parent knows the culprit if this process is killed by a crash
            fh.write(canon(case))
        res = exec_case(mod, case)
        st.recent.append(canon(case))
        unknown, matched = split_known(mod, case, res["viol"], findings)
        for k in matched:
            st.known[k] = st.known.get(k, 0) + 1
        st.note(case, res)
        if survey:
            for kind, detail in unknown:
                b = buckets.setdefault(kind, [0, None, None, 10 ** 9])
                b[0] += 1
                size = len(canon(case))
                if size < b[3]:
                    b[1], b[2], b[3] = json.loads(canon(case)), detail, size
            return []
        return unknown

    # (1) exhaustive part, sharded round-robin
    enum = getattr(mod, "enumerate_cases", None)
    if enum is not None:
        n_enum = 0
        done = True
        for i, case in enumerate(enum(tier)):
            if i % nshards != shard:
                continue
            if time.time() - t_start > budget:
                st.budget_hit = True
                done = False
                break
            n_enum += 1
            unknown = one(case)
            if unknown:
                st.fail(case, unknown)
                break
        st.exhaustive_done = done and st.best_fail is None
        st.labels["enumerated"] = n_enum

    # (2) generated part
    n_ex = conf.get("examples", 0)
    if n_ex and st.best_fail is None:
        sseed = shard_seed(seed, pid, shard)

        @hypothesis.seed(sseed)
        @settings(max_examples=n_ex, database=None, deadline=None, derandomize=False, report_multiple_bugs=False,
                  print_blob=False, phases=[Phase.explicit, Phase.generate, Phase.shrink],
                  suppress_health_check=list(HealthCheck))
        @given(mod.strategy(tier))
        def test(case):
            now = time.time()
            if st.first_fail_t is not None and now - st.first_fail_t > shrink_cap:
                return  # shrink cap reached: let the shrinker wind down; best_fail is what gets reported
            if st.first_fail_t is None and now - t_start > budget:
                st.budget_hit = True
                return
            unknown = one(case)
            if unknown:
                st.fail(case, unknown)
                raise _Found()

        try:
            test()
        except _Found:
            pass
        except HarnessError as e:
            err = str(e)
        except BaseException as e:  # hypothesis Flaky etc. after our shrink cap
            if st.best_fail is None:
                err = "hypothesis/harness error: %r\n%s" % (e, traceback.format_exc())

    out = {"shard": shard, "evals": st.evals, "labels": st.labels, "nontrivial": sorted(st.nontrivial),
           "samples": st.samples, "known": st.known, "budget_hit": st.budget_hit, "error": err,
           "exhaustive_done": st.exhaustive_done, "wall_s": time.time() - t_start, "buckets": buckets,
           "fail": None if st.best_fail is None else {"case": st.best_fail[1], "viol": st.best_fail[2], "history": st.first_fail_hist}}
    with open(out_path, "w") as fh:
        json.dump(out, fh, default=_json_default)


# ----------------------------------------------------------------------------------------------
# parent

def write_replay(pid, case, viol):
    d = os.path.join(VERIF, "replays", pid)
    os.makedirs(d, exist_ok=True)
    p = os.path.join(d, case_hash(case) + ".json")
    with open(p, "w") as fh:
        json.dump({"property": pid, "case": case, "violations": viol}, fh, indent=1, default=_json_default)
    return os.path.relpath(p, VERIF)


def read_replay(path):
    """-> a case, or {"sequence": [case, ...]}: cases to execute in this order in ONE process; the last one is judged (failures that
    depend on what the process did before: module-level caches and other hidden state)"""
    d = json.load(open(path))
    if isinstance(d, dict) and "sequence" in d:
        return {"sequence": d["sequence"]}
    return d["case"] if isinstance(d, dict) and "case" in d else d


def last_case(case):
    return case["sequence"][-1] if isinstance(case, dict) and "sequence" in case and len(case) == 1 else case


def write_sequence_replay(pid, seq, viol):
    d = os.path.join(VERIF, "replays", pid)
    os.makedirs(d, exist_ok=True)
    p = os.path.join(d, "seq-" + case_hash({"sequence": seq}) + ".json")
    with open(p, "w") as fh:
        json.dump({"property": pid, "sequence": seq, "violations": viol,
                   "note": "the last case fails only after the earlier ones ran in the same process"}, fh, indent=1, default=_json_default)
    return os.path.relpath(p, VERIF)


def worker_env(mod):
    env = dict(os.environ)
    env["OMP_NUM_THREADS"] = str(getattr(mod, "OMP", "2"))
    env["OPENBLAS_NUM_THREADS"] = "1"
    env["MKL_NUM_THREADS"] = "1"
    env["PYTHONHASHSEED"] = "0"
    env["OMP_WAIT_POLICY"] = "passive"  # idle OpenMP threads sleep instead of spinning (many worker processes share the cores)
    env["MALLOC_CHECK_"] = "3"  # glibc: abort on detected heap corruption instead of carrying on
    return env


def run_in_child(pid, case, timeout=600):
    """execute one case in a fresh process -> (viol list, labels) ; used for regress cases, known-finding replays and
    confirmation of a shrunk failure, so that crashes/hangs of the code under test cannot take the parent down."""
    mod = load_module(pid)
    with tempfile.TemporaryDirectory(prefix="vf-") as td:
        cp = os.path.join(td, "case.json")
        op = os.path.join(td, "out.json")
        json.dump({"case": case}, open(cp, "w"), default=_json_default)
        try:
            p = subprocess.run([os.path.join(VERIF, "check"), pid, "--_one", cp, "--_out", op],
                               env=worker_env(mod), timeout=timeout, stdout=subprocess.PIPE, stderr=subprocess.PIPE,
                               text=True)
        except subprocess.TimeoutExpired:
            raise HarnessError("inconclusive: case did not finish within %ds" % timeout)
        if p.returncode < 0:
            # also when the result file was written: heap corruption typically only kills the interpreter at exit
            return [("crash/signal%d" % (-p.returncode), p.stderr[-500:])], ["crashed"]
        if not os.path.exists(op):
            if "Traceback (most recent call last)" not in (p.stderr or ""):
                # the interpreter was terminated from native code (exit() in a C kernel) without a Python error
                return [("crash/exit%d" % p.returncode, (p.stderr or "")[-500:])], ["crashed"]
            raise HarnessError("child failed (rc=%s): %s" % (p.returncode, p.stderr[-3000:]))
        r = json.load(open(op))
        if r.get("error"):
            raise HarnessError(r["error"])
        return [tuple(v) for v in r["viol"]], r["labels"]


def main(argv=None):
    ap = argparse.ArgumentParser()
    ap.add_argument("pid")
    ap.add_argument("--tier", default=os.environ.get("VERIF_TIER", "quick"), choices=["quick", "thorough"])
    ap.add_argument("--replay")
    ap.add_argument("--seed", type=int, default=int(os.environ.get("VERIF_SEED", "1")))
    ap.add_argument("--examples", type=int)
    ap.add_argument("--shards", type=int)
    ap.add_argument("--no-evidence", action="store_true")
    ap.add_argument("--survey", action="store_true", help="do not stop at the first violation: bucket all violations by kind")
    ap.add_argument("--_shard", type=int)
    ap.add_argument("--_nshards", type=int)
    ap.add_argument("--_out")
    ap.add_argument("--_one")
    a = ap.parse_args(argv)
    pid = a.pid.upper()

    if a._one:  # child: one case
        mod = load_module(pid)
        try:
            rc = read_replay(a._one)
            if isinstance(rc, dict) and list(rc) == ["sequence"]:
                for c_ in rc["sequence"][:-1]:
                    exec_case(mod, c_)
                rc = rc["sequence"][-1]
            res = exec_case(mod, rc)
            json.dump({"viol": res["viol"], "labels": res["labels"]}, open(a._out, "w"))
        except HarnessError as e:
            json.dump({"error": str(e)}, open(a._out, "w"))
        return 0
    if a._shard is not None:  # child: one shard
        run_shard(pid, a.tier, a.seed, a._shard, a._nshards, a._out, a.examples)
        return 0

    t0 = time.time()
    from vlib import build
    try:
        binfo = build.ensure_built(REPO)
    except Exception as e:
        print("HARNESS-ERROR build: %s" % e)
        return 2
    mod = load_module(pid)
    findings = load_findings(pid)

    if a.replay:
        try:
            viol, labels = run_in_child(pid, read_replay(a.replay))
        except HarnessError as e:
            print("HARNESS-ERROR %s" % e)
            return 2
        unknown, matched = split_known(mod, last_case(read_replay(a.replay)), viol, findings)
        for k, d in viol:
            print("  %s: %s" % (k, d))
        if unknown:
            print("VIOLATION property=%s replay=%s" % (pid, a.replay))
            return 1
        for k in sorted(set(matched)):
            print("KNOWN-FINDING: property=%s %s" % (pid, k))
        print("replay ok")
        return 0

    try:
        return _search(a, pid, mod, findings, binfo, t0)
    except HarnessError as e:
        print("HARNESS-ERROR %s" % e)
        return 2


def _search(a, pid, mod, findings, binfo, t0):
    conf = dict(getattr(mod, "QUICK" if a.tier == "quick" else "THOROUGH"))
    if a.examples is not None:
        conf["examples"] = a.examples
    nshards = a.shards or conf.get("shards", 8)
    violations = []   # (case, viol)
    known_lines = []
    notes = []

    # 1. regression cases (fixed findings, boundary cases): must pass
    rdir = os.path.join(VERIF, "regress", pid)
    n_reg = 0
    open_replays = {f.get("replay") for f in findings if f.get("status") == "open"}
    if os.path.isdir(rdir):
        for fn in sorted(os.listdir(rdir)):
            rel = os.path.join("regress", pid, fn)
            if not fn.endswith(".json") or rel in open_replays:
                continue
            case = read_replay(os.path.join(rdir, fn))
            viol, _ = run_in_child(pid, case)
            n_reg += 1
            unknown, _m = split_known(mod, case, viol, findings)
            if unknown:
                violations.append((case, unknown, rel))

    # 2. open known findings: replay the recorded case, report if it still fails
    for f in findings:
        if f.get("status") != "open":
            continue
        rp = os.path.join(VERIF, f["replay"])
        case = read_replay(rp)
        viol, _ = run_in_child(pid, case)
        unknown, matched = split_known(mod, case, viol, findings)
        if f["key"] in matched:
            known_lines.append("KNOWN-FINDING: property=%s %s: %s" % (pid, f["key"], f["what"]))
        else:
            notes.append("open finding %s no longer reproduces on its recorded case" % f["key"])
        if unknown:
            violations.append((case, unknown, f["replay"]))

    # 3. search, sharded
    results = []
    if not violations:
        env = worker_env(mod)
        if a.survey:
            env["VERIF_SURVEY"] = "1"
        with tempfile.TemporaryDirectory(prefix="vf-", ignore_cleanup_errors=True) as td:
            procs = []
            for s in range(nshards):
                op = os.path.join(td, "s%d.json" % s)
                cmd = [os.path.join(VERIF, "check"), pid, "--tier", a.tier, "--seed", str(a.seed),
                       "--_shard", str(s), "--_nshards", str(nshards), "--_out", op]
                if a.examples is not None:
                    cmd += ["--examples", str(a.examples)]
                procs.append((s, op, subprocess.Popen(cmd, env=env, stdout=subprocess.PIPE, stderr=subprocess.PIPE,
                                                      text=True)))
            hard = conf.get("budget_s", 120 if a.tier == "quick" else 1500) * 2 + 400
            for s, op, p in procs:
                try:
                    so, se = p.communicate(timeout=max(5, hard - (time.time() - t0)))
                except subprocess.TimeoutExpired:
                    for _s, _o, q in procs:
                        q.kill()
                    raise HarnessError("inconclusive: shard %d silent beyond the hard limit (worker hung)" % s)
                if not os.path.exists(op):
                    if p.returncode is not None and os.path.exists(op + ".cur") and (
                            p.returncode < 0 or "Traceback (most recent call last)" not in (se or "")):
                        # the code under test killed the worker (segfault / abort): the case being run is the suspect
                        case = json.load(open(op + ".cur"))
                        results.append({"shard": s, "evals": 0, "labels": {"worker-crashed": 1}, "nontrivial": [],
                                        "samples": [], "known": {}, "budget_hit": False, "error": None,
                                        "exhaustive_done": False, "wall_s": 0, "buckets": {
                                            "crash/rc%d" % p.returncode: [1, case, (se or "")[-300:], len(canon(case))]},
                                        "fail": {"case": case, "viol": [("crash/rc%d" % p.returncode, (se or "")[-300:])]}})
                        continue
                    for _s, _o, q in procs:
                        q.kill()
                    raise HarnessError("shard %d died rc=%s: %s" % (s, p.returncode, (se or "")[-3000:]))
                results.append(json.load(open(op)))
        for r in results:
            if r["error"]:
                raise HarnessError(r["error"])
        if a.survey:
            tot = {}
            for r in results:
                for k, (n, case, detail, size) in r["buckets"].items():
                    t = tot.setdefault(k, [0, None, None, 10 ** 9])
                    t[0] += n
                    if size < t[3]:
                        t[1], t[2], t[3] = case, detail, size
            print("SURVEY %s: %d violation kinds over %d evaluations" % (pid, len(tot), sum(r["evals"] for r in results)))
            os.makedirs(os.path.join(VERIF, "replays", pid), exist_ok=True)
            for k, (n, case, detail, size) in sorted(tot.items(), key=lambda kv: -kv[1][0]):
                rp = write_replay(pid, case, [(k, detail)])
                print("  %6d  %s\n          %s\n          smallest: %s  [%s]" % (n, k, detail[:300], canon(case)[:400], rp))
            return 0
        fails = [r["fail"] for r in results if r["fail"]]
        if fails:
            fails.sort(key=lambda f: len(canon(f["case"])))
            f = fails[0]
            # confirm outside hypothesis, in a fresh process
            viol, _ = run_in_child(pid, f["case"])
            unknown, _m = split_known(mod, f["case"], viol, findings)
            if unknown:
                violations.append((f["case"], unknown, None))
            else:
                # not reproducible on its own: does it depend on what the worker process did before (hidden global state)?
                seq_hit = None
                for fh in [x for x in fails if x.get("history")]:
                    h = fh["history"]
                    full = h["before"] + [h["case"]]

                    def fails_as(seq):
                        v, _l = run_in_child(pid, {"sequence": seq})
                        u, _mm = split_known(mod, seq[-1], v, findings)
                        return u
                    u = fails_as(full)
                    if not u:
                        continue
                    best = (full, u)
                    found_small = False
                    for b in reversed(h["before"][-25:]):          # a single earlier call is the usual culprit
                        u2 = fails_as([b, h["case"]])
                        if u2:
                            best, found_small = ([b, h["case"]], u2), True
                            break
                    if not found_small:
                        k = 2
                        while k < len(full):                       # otherwise the shortest failing suffix among 2, 4, 8, ...
                            u2 = fails_as(full[-k:])
                            if u2:
                                best = (full[-k:], u2)
                                break
                            k *= 2
                    seq_hit = best
                    break
                if seq_hit is None:
                    raise HarnessError("flaky-oracle: shrunk failure did not reproduce in a fresh process, alone or after the cases that "
                                       "preceded it: %s / %s" % (canon(f["case"])[:500], f["viol"]))
                seq, u = seq_hit
                u = [(k_ + "/after-earlier-calls", d_ + "  [fails only after %d earlier case(s) ran in the same process]" % (len(seq) - 1)) for k_, d_ in u]
                violations.append((seq[-1], u, write_sequence_replay(pid, seq, u)))

    # 4. evidence + verdict
    evals = sum(r["evals"] for r in results) + n_reg
    labels = {}
    nontriv = set()
    samples = []
    known_counts = {}
    for r in results:
        for k, v in r["labels"].items():
            labels[k] = labels.get(k, 0) + v
        nontriv.update(r["nontrivial"])
        for k, v in r["known"].items():
            known_counts[k] = known_counts.get(k, 0) + v
    for r in results:
        samples += r["samples"][:1]
    samples = samples[:6]
    exhaustive = bool(results) and all(r["exhaustive_done"] for r in results) and \
        getattr(mod, "enumerate_cases", None) is not None
    cov = {"evaluations": int(evals), "distinct_nontrivial": len(nontriv),
           "rule": mod.RULE, "samples": samples, "labels": dict(sorted(labels.items())),
           "regression_cases": n_reg, "shards": nshards,
           "known_finding_hits_during_search": known_counts,
           "budget_hit": any(r["budget_hit"] for r in results)}
    if getattr(mod, "enumerate_cases", None) is not None:
        cov["exhaustive"] = exhaustive
        cov["exhaustive_scope"] = getattr(mod, "ENUM_SCOPE", "")
    assumptions = list(getattr(mod, "ASSUMPTIONS", []))
    if binfo.get("pyx_changed"):
        assumptions.append("WARNING: .pyx sources differ from the last build and cannot be recompiled here (no Cython)")
    assumptions += notes
    ev = {"property_id": pid, "tier": a.tier, "seed": a.seed, "level": "exploration", "coverage": cov,
          "assumptions": assumptions, "wall_s": round(time.time() - t0, 2), "violations": len(violations),
          "known_findings_reported": known_lines}
    if not a.no_evidence:
        os.makedirs(os.path.join(VERIF, "evidence"), exist_ok=True)
        with open(os.path.join(VERIF, "evidence", pid + ".json"), "w") as fh:
            json.dump(ev, fh, indent=1, default=_json_default)
    print("%s tier=%s seed=%d evaluations=%d distinct_nontrivial=%d wall=%.1fs%s" % (
        pid, a.tier, a.seed, evals, len(nontriv), time.time() - t0,
        " exhaustive-part-complete" if exhaustive else ""))
    if known_counts:
        print("  (search met already-known findings: %s)" % known_counts)
    for n in notes:
        print("  note: " + n)
    for line in known_lines:
        print(line)
    if violations:
        for case, viol, rel in violations:
            for k, d in viol[:5]:
                print("  %s: %s" % (k, d[:400]))
            path = rel or write_replay(pid, case, viol)
            print("VIOLATION property=%s replay=%s" % (pid, path))
        return 1
    return 0
