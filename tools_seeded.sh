#!/bin/bash
# usage: tools_seeded.sh [<seeded-dir-name> ...]   -- for every seeded change: apply seeded/<name>/patch.diff to /repo, run the quick
# check(s) of the property it breaks (meta.json "checks", default "property"), undo, rebuild.  Prints CAUGHT / MISSED per change.
cd /verif
names="$@"; [ -z "$names" ] && names=$(ls seeded | grep -v README)
for n in $names; do
  d=seeded/$n; [ -f $d/patch.diff ] || continue
  props=$(/venv/bin/python -c "import json;m=json.load(open('$d/meta.json'));print(' '.join(m.get('checks') or [m['property']]))")
  if ! git -C /repo apply --check $PWD/$d/patch.diff 2>/dev/null; then echo "$n: patch does not apply to the current tree"; continue; fi
  git -C /repo apply $PWD/$d/patch.diff
  for prop in $props; do
    out=$(./check $prop --tier quick --no-evidence 2>&1 | grep -v "^KNOWN-FINDING")
    if echo "$out" | grep -q "^VIOLATION property=$prop"; then echo "$n: CAUGHT by $prop: $(echo "$out" | grep -B1 '^VIOLATION' | head -1 | cut -c1-160)"; else echo "$n: MISSED by $prop ($(echo "$out" | head -1 | cut -c1-100))"; fi
  done
  git -C /repo checkout -- . ; /venv/bin/python vlib/build.py /repo >/dev/null 2>&1
done
