#!/venv/bin/python
"""Compare a junit xml of the repository's test suite with the pinned baseline's stable_pass set."""
import json, sys, xml.etree.ElementTree as ET
b = json.load(open('/root/.vp/BASELINE.json'))
sp = set(b['stable_pass'])
res = {}
for tc in ET.parse(sys.argv[1]).getroot().iter('testcase'):
    name = "%s::%s" % (tc.get('classname'), tc.get('name'))
    bad = any(ch.tag in ('failure', 'error') for ch in tc)
    skipped = any(ch.tag == 'skipped' for ch in tc)
    res[name] = 'fail' if bad else ('skip' if skipped else 'pass')
missing = [t for t in sp if res.get(t) != 'pass']
print("stable_pass: %d, passing now: %d" % (len(sp), len(sp) - len(missing)))
for t in sorted(missing):
    print("  NOT PASSING:", t, res.get(t))
