#!/bin/bash
# usage: tools_mutant.sh <ID> <sed-expr> <file-relative-to-repo> [extra check args]   -- apply a one-line mutation to /repo, run the quick check, revert
id=$1; expr=$2; file=$3; shift 3
cd /repo && sed -i "$expr" "$file" && git diff --stat | tail -1
cd /verif && ./check $id --tier quick --no-evidence "$@" 2>&1 | tail -6
cd /repo && git checkout -- . && cd /verif && /venv/bin/python vlib/build.py /repo >/dev/null
