#!/venv/bin/python
"""Regenerate MANIFEST.json from the property modules that exist (props/cNN.py with REGISTER = True)."""
import importlib, json, os, sys
here = os.path.dirname(os.path.abspath(__file__))
sys.path.insert(0, here)
props = [json.loads(l) for l in open(os.path.join(here, "properties.jsonl"))]
checks, na = [], []
for p in props:
    pid = p["id"]
    try:
        mod = importlib.import_module("props." + pid.lower())
    except ModuleNotFoundError:
        mod = None
    if mod is None or not getattr(mod, "REGISTER", True):
        na.append({"property_id": pid, "reason": getattr(mod, "NA_REASON", "check not built yet in this round (planned in DESIGN.md section 3)")})
        continue
    checks.append({
        "property_id": pid,
        "quick_cmd": "./check %s --tier quick" % pid,
        "thorough_cmd": "./check %s --tier thorough" % pid,
        "evidence_file": "evidence/%s.json" % pid,
        "replay_cmd_template": "./check %s --replay {path}" % pid,
        "engine": "pbt-runner",
        "level_claimed": {"category": "exploration", "text": mod.LEVEL_TEXT, "design_ref": "DESIGN.md section 3, " + pid},
        "level_note": mod.LEVEL_NOTE,
        "technique": mod.TECHNIQUE,
    })
m = {
    "version": 1,
    "setup_cmd": "./setup.sh",
    "hooks": {"guard": "MDTRAJ_VERIF", "enable": "no hooks: every observation point is public API, file bytes or process environment; "
              "checks rebuild the C extensions from /repo's working tree via vlib/build.py",
              "baseline_off_cmd": "cd /repo && /venv/bin/python -m pytest -ra -q -p no:cacheprovider --timeout=900 --continue-on-collection-errors",
              "source_commits": [], "add_only": True},
    "engines": [{"name": "pbt-runner", "path": "vlib/runner.py", "serves_properties": [c["property_id"] for c in checks],
                 "kind_free_text": "Hypothesis-driven generated-input search (plus sharded exhaustive enumeration of small finite spaces) "
                                   "against explicit float64 / model / round-trip / metamorphic oracles; shrinks to a JSON replay"}],
    "checks": checks,
    "not_applicable": na,
    "notes": "All checks: ./check <ID> --tier quick|thorough ; replay with ./check <ID> --replay <file>. Exit 0 held / 1 violation / 2 harness error.",
}
json.dump(m, open(os.path.join(here, "MANIFEST.json"), "w"), indent=1)
print("checks:", [c["property_id"] for c in checks], "na:", len(na))
