#!/bin/bash
# usage: tools_seeded_wt.sh [<seeded-dir-name> ...]   -- like tools_seeded.sh, but never touches /repo's working tree: every change is
# applied in a scratch git worktree of /repo (under /tmp, removed at the end), the extensions are rebuilt there and the quick
# check(s) run against it (VERIF_REPO=<worktree>).  Prints CAUGHT / MISSED per change.
cd /verif
wt=/tmp/verif-seeded-wt.$$
git -C /repo worktree add -q --detach $wt HEAD || exit 2
(cd /repo && find mdtraj \( -name '*.so' -o -name '*.c' -o -name '*.cpp' \) | while read f; do [ -e "$wt/$f" ] || { mkdir -p "$wt/$(dirname $f)"; cp -p "$f" "$wt/$f"; }; done)
names="$@"; [ -z "$names" ] && names=$(ls seeded | grep -v README)
for n in $names; do
  d=seeded/$n; [ -f $d/patch.diff ] || continue
  props=$(/venv/bin/python -c "import json;m=json.load(open('$d/meta.json'));print(' '.join(m.get('checks') or [m['property']]))")
  git -C $wt checkout -q -- . 
  if ! git -C $wt apply $PWD/$d/patch.diff 2>/dev/null; then echo "$n: patch does not apply to the current tree"; continue; fi
  /venv/bin/python vlib/build.py $wt >/dev/null 2>&1
  hit=""
  for prop in $props; do
    out=$(VERIF_REPO=$wt ./check $prop --tier quick --no-evidence 2>&1 | grep -v "^KNOWN-FINDING")
    if echo "$out" | grep -q "^VIOLATION property=$prop"; then hit="$hit $prop"; echo "$n: CAUGHT by $prop: $(echo "$out" | grep -B1 '^VIOLATION' | head -1 | cut -c1-140)"; else echo "$n: missed by $prop ($(echo "$out" | head -1 | cut -c1-80))"; fi
  done
  [ -z "$hit" ] && echo "$n: MISSED"
done
git -C /repo worktree remove --force $wt; git -C /repo worktree prune
