#!/bin/bash
# MANIFEST.setup_cmd: offline; make sure hypothesis is importable in /venv and prime the build cache.
set -e
here="$(cd "$(dirname "${BASH_SOURCE[0]}")" && pwd)"
cd "$here"
if ! /venv/bin/python -c 'import hypothesis' 2>/dev/null; then
  PIP_NO_INDEX=1 /venv/bin/pip install --no-index --find-links /opt/veriftools/wheels hypothesis
fi
/venv/bin/python -c 'import hypothesis, numpy, scipy, tables, netCDF4, pandas; print("deps ok", hypothesis.__version__)'
/venv/bin/python vlib/build.py "${VERIF_REPO:-/repo}"
/venv/bin/python -c 'import mdtraj; print("mdtraj ok", mdtraj.__file__)'
