#!/venv/bin/python
"""Refresh the numeric columns of the table in DESIGN.md section 6.2 from evidence/<ID>.json (quick tier)."""
import json, re, os
V = os.path.dirname(os.path.abspath(__file__))
p = os.path.join(V, "DESIGN.md"); s = open(p).read()
def fmt(n): return "{:,}".format(n).replace(",", " ")
for i in range(1, 21):
    pid = "C%02d" % i
    ev = os.path.join(V, "evidence", pid + ".json")
    if not os.path.exists(ev): continue
    e = json.load(open(ev))
    if e.get("tier") != "quick": continue
    cov = e["coverage"]
    new = "%s (%s) | %d s |" % (fmt(cov["evaluations"]), fmt(cov["distinct_nontrivial"]), round(e["wall_s"]))
    s, k = re.subn(r"(\| %s \| [^|]*\| )[0-9  ]+\([0-9  ]+\) \| [0-9]+ s \|" % pid, lambda m: m.group(1) + new, s, count=1)
    if not k: print("row not found", pid)
open(p, "w").write(s)
